package main

// Package-local call graph: static callees, closures, and interface invocations
// resolved by class-hierarchy analysis restricted to the trzsz package's types.

import (
	"go/types"
	"strings"

	"trzszlint/xssa"
)

type callSite struct {
	Caller *ssa.Function
	Instr  ssa.CallInstruction
}

type CG struct {
	Callees map[*ssa.Function]map[*ssa.Function]bool
	Callers map[*ssa.Function][]callSite
}

func (p *Program) implementers(iface *types.Interface, method string) []*ssa.Function {
	var out []*ssa.Function
	for _, m := range p.SPkg.Members {
		t, ok := m.(*ssa.Type)
		if !ok {
			continue
		}
		nt, ok := t.Type().(*types.Named)
		if !ok {
			continue
		}
		if _, isIface := nt.Underlying().(*types.Interface); isIface {
			continue
		}
		for _, rt := range []types.Type{nt, types.NewPointer(nt)} {
			if !types.Implements(rt, iface) {
				continue
			}
			ms := p.Prog.MethodSets.MethodSet(rt)
			sel := ms.Lookup(p.Pkg.Types, method)
			if sel == nil {
				sel = ms.Lookup(nil, method)
			}
			if sel == nil {
				continue
			}
			if f := p.Prog.MethodValue(sel); f != nil {
				// promoted through embedding: synthetic wrapper; follow to the declared one if in package
				out = append(out, f)
			}
			break
		}
	}
	return out
}

func (p *Program) cg() *CG {
	if p.cgCache != nil {
		return p.cgCache
	}
	g := &CG{Callees: map[*ssa.Function]map[*ssa.Function]bool{}, Callers: map[*ssa.Function][]callSite{}}
	add := func(from, to *ssa.Function, ci ssa.CallInstruction) {
		if to == nil {
			return
		}
		if g.Callees[from] == nil {
			g.Callees[from] = map[*ssa.Function]bool{}
		}
		g.Callees[from][to] = true
		if ci != nil {
			g.Callers[to] = append(g.Callers[to], callSite{from, ci})
		}
	}
	for _, f := range p.AllFns {
		for _, a := range f.AnonFuncs {
			add(f, a, nil)
		}
		eachInstr(f, func(in ssa.Instruction) {
			ci, ok := in.(ssa.CallInstruction)
			if !ok {
				return
			}
			cc := ci.Common()
			if cc.IsInvoke() {
				iface, ok := cc.Value.Type().Underlying().(*types.Interface)
				if !ok {
					return
				}
				for _, impl := range p.implementers(iface, cc.Method.Name()) {
					add(f, impl, ci)
				}
				return
			}
			if callee := cc.StaticCallee(); callee != nil {
				add(f, callee, ci)
			} else if callee := closureInCell(cc.Value); callee != nil {
				add(f, callee, ci)
			}
		})
	}
	p.cgCache = g
	return g
}

// reachableFrom: functions (with or without bodies) reachable from roots.
func (p *Program) reachableFrom(roots ...*ssa.Function) map[*ssa.Function]bool {
	g := p.cg()
	seen := map[*ssa.Function]bool{}
	var visit func(f *ssa.Function)
	visit = func(f *ssa.Function) {
		if f == nil || seen[f] {
			return
		}
		seen[f] = true
		for c := range g.Callees[f] {
			visit(c)
		}
	}
	for _, r := range roots {
		visit(r)
	}
	return seen
}

// callersOf: call sites in the trzsz package that may call f.
func (p *Program) callersOf(f *ssa.Function) []callSite {
	return p.cg().Callers[f]
}

func (p *Program) inPkg(f *ssa.Function) bool {
	for x := f; x != nil; x = x.Parent() {
		if x.Pkg == p.SPkg {
			return true
		}
	}
	return false
}

// closureInCell resolves a call through a local variable that holds exactly one closure
// (deliver := func(...){...}; later deliver(...), possibly from a nested closure).
func closureInCell(v ssa.Value) *ssa.Function {
	u, ok := v.(*ssa.UnOp)
	if !ok {
		return nil
	}
	addr := u.X
	if fv, ok := addr.(*ssa.FreeVar); ok {
		addr = freeVarBinding(fv)
	}
	al, ok := addr.(*ssa.Alloc)
	if !ok {
		return nil
	}
	var fn *ssa.Function
	n := 0
	for _, r := range referrersOf(al) {
		if st, ok := r.(*ssa.Store); ok && st.Addr == ssa.Value(al) {
			n++
			if mc, ok := st.Val.(*ssa.MakeClosure); ok {
				fn, _ = mc.Fn.(*ssa.Function)
			} else if f2, ok := st.Val.(*ssa.Function); ok {
				fn = f2
			}
		}
	}
	if n != 1 {
		return nil
	}
	return fn
}

// reachableNarrow: like reachableFrom, but interface invocations on non-trzsz interfaces
// (io.Writer, io.Reader, ...) are not resolved by CHA; instead, a function that constructs a
// value of a trzsz named type reaches that type's methods (objects are used where they are built).
func (p *Program) reachableNarrow(roots ...*ssa.Function) map[*ssa.Function]bool {
	seen := map[*ssa.Function]bool{}
	var visit func(f *ssa.Function)
	methodsOf := func(t types.Type) []*ssa.Function {
		var out []*ssa.Function
		if pt, ok := t.(*types.Pointer); ok {
			t = pt.Elem()
		}
		nt, ok := t.(*types.Named)
		if !ok || nt.Obj().Pkg() == nil || nt.Obj().Pkg().Path() != trzszPath {
			return nil
		}
		for _, rt := range []types.Type{nt, types.NewPointer(nt)} {
			ms := p.Prog.MethodSets.MethodSet(rt)
			for i := 0; i < ms.Len(); i++ {
				if f := p.Prog.MethodValue(ms.At(i)); f != nil && f.Synthetic == "" {
					out = append(out, f)
				}
			}
		}
		return out
	}
	visit = func(f *ssa.Function) {
		if f == nil || seen[f] {
			return
		}
		seen[f] = true
		for _, a := range f.AnonFuncs {
			visit(a)
		}
		eachInstr(f, func(in ssa.Instruction) {
			if al, ok := in.(*ssa.Alloc); ok {
				for _, m := range methodsOf(al.Type()) {
					// only small helper types: skip the big state types whose methods are the API itself
					if n := al.Type().Underlying().(*types.Pointer).Elem().(interface{ String() string }).String(); strings.HasSuffix(n, "trzszTransfer") || strings.HasSuffix(n, "TrzszFilter") || strings.HasSuffix(n, "TrzszRelay") {
						continue
					}
					visit(m)
				}
			}
			ci, ok := in.(ssa.CallInstruction)
			if !ok {
				return
			}
			cc := ci.Common()
			if cc.IsInvoke() {
				named, isNamed := cc.Value.Type().(*types.Named)
				if !isNamed || named.Obj().Pkg() == nil || named.Obj().Pkg().Path() != trzszPath {
					return
				}
				iface := named.Underlying().(*types.Interface)
				for _, impl := range p.implementers(iface, cc.Method.Name()) {
					visit(impl)
				}
				return
			}
			if callee := cc.StaticCallee(); callee != nil {
				visit(callee)
			} else if callee := closureInCell(cc.Value); callee != nil {
				visit(callee)
			}
		})
	}
	for _, r := range roots {
		visit(r)
	}
	return seen
}
