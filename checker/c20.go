package main

// C20 — progress line: clamp and ladder structure.

import (
	"fmt"
	"go/token"
	"go/types"
	"sort"
	"strings"

	"trzszlint/xssa"
)

func init() {
	register("C20", 25, "Decided (for every path of the current source): (R1) both repeat counts of the bar are clamped to 0..total and the bar is only drawn for length >= 12, so rendering cannot panic whatever step/size it is handed; (R2) the percentage that is formatted is clamped to 0..100; (R3) the step shown never decreases within a file — it is written by the name reset, by 'done' (= size) and by the step update whose store is on the step > previous edge; (R4) the layout ladder leaves only through the fit test evaluated on exactly the (name, right part) combination that is then used, the last fallback clears the name, every shortened name is paired with the width returned by the same shortening call, the right-hand formats are ASCII-only, the bar is '[' + (length-2) cells + ']'; (R5) the shortening function measures every rune with the same width function and stops before exceeding the budget. Not decided: the display-width bound for all names x widths (wide runes, ellipsis arithmetic), timing of redraws. Added to R3: kept-prefix accounting (reset at file start, set by the resume exchange, included in step and size).",
		func(c *Ctx) {
			c.run("C20-R1", "GUARD-DOM: bar cell counts are clamped; no bar below the minimum length", c20R1)
			c.run("C20-R2", "GUARD-DOM: percentage within 0..100", c20R2)
			c.run("C20-R3", "WHO-WRITES: the displayed step never decreases within a file", c20R3)
			c.run("C20-R4", "GUARD-DOM: layout ladder", c20R4)
			c.run("C20-R5", "GUARD-DOM: name shortening measures by display width", c20R5)
			c.run("C20-R10", "ORDER: the width given back to the bar after the stop prompt is read when the prompt ends", c20R10)
			c.run("C20-R9", "GUARD-DOM: a percentage is turned into an integer only after it was clamped as a float", c20R9)
			c.run("C20-R8", "GUARD-DOM/WHO-WRITES: variable indexes into fixed-size arrays in the progress code are bounded loop counters, ring indexes with their wrap test, or guarded", c20R8)
			c.run("C20-R7", "GUARD-DOM (interprocedural): counts handed to Grow / Repeat while rendering cannot be negative", c20R7)
			c.run("C20-R6", "MUST-PASS/WHO-WRITES: the width the line is laid out for is the latest width reported to the filter", c20R6)
		})
}

// clampedBetween: every origin of v is lo, hi, or a value guarded (on the edge it flows along)
// by NOT(v > hi) and NOT(v < lo). lo/hi are predicates on values.
func clampedBetween(v ssa.Value, isLo, isHi func(ssa.Value) bool) (bool, string) {
	for _, l := range origins(v, originOpts{}) {
		if isLo(l.V) || isHi(l.V) {
			continue
		}
		fs := l.facts()
		upper := factCmp(fs, token.LEQ, isValue(l.V), isHi)
		lower := factCmp(fs, token.GEQ, isValue(l.V), isLo)
		if !upper || !lower {
			return false, fmt.Sprintf("value %s (%s) is not clamped (upper=%v lower=%v)", l.V.Name(), l.V.String(), upper, lower)
		}
	}
	return true, ""
}

func c20R1(c *Ctx) {
	f := c.fn("textProgressBar.getProgressBar")
	// total = length - 2
	var total ssa.Value
	eachInstr(f, func(in ssa.Instruction) {
		if b, ok := in.(*ssa.BinOp); ok && b.Op == token.SUB && isVar("length")(b.X) && isConstIntV(2)(b.Y) && total == nil {
			total = b
		}
	})
	if total == nil {
		c.lost("total = length - 2 in getProgressBar")
	}
	minLen := factCmp(factsAt(total.(ssa.Instruction).Block()), token.GEQ, isVar("length"), isConstIntV(12))
	c.check(minLen, "getProgressBar/min-length", c.pos(f.Pos()), "a bar is drawn only for length >= 12 (total >= 10)", "the bar can be drawn for a length below 12 (total cells can go negative)")
	reps := callsIn(f, idIs("strings.Repeat"))
	if len(reps) < 2 {
		c.undecided("getProgressBar/repeats", "expected the full and empty cell repeats")
	}
	var full ssa.Value
	for _, ci := range reps {
		cnt := ci.Common().Args[1]
		if b, ok := strip(cnt).(*ssa.BinOp); ok && b.Op == token.SUB && sameValue(b.X, total) {
			// empty = total - full
			ok2, why := clampedBetween(b.Y, isConstIntV(0), isValue(total))
			c.check(ok2, "getProgressBar/empty=total-full", c.ipos(ci), "empty cells = total - full with full clamped to 0..total", "the empty-cell count can be negative or exceed the bar: "+why)
			full = b.Y
			continue
		}
		ok2, why := clampedBetween(cnt, isConstIntV(0), isValue(total))
		c.check(ok2, "getProgressBar/full-clamped", c.ipos(ci), "full cells clamped to 0..total", "the full-cell count is not clamped to 0..total (negative Repeat count panics; huge count allocates without bound): "+why)
	}
	// the coloured branch loops to the same clamped count
	if full != nil {
		for _, b := range f.Blocks {
			i := blockIf(b)
			if i == nil {
				continue
			}
			op, x, y, ok := cmpFact(normFact(fact{V: i.Cond, Pol: true}))
			if ok && op == token.GTR { // bound > i
				op, x, y = token.LSS, y, x
			}
			_ = x
			if ok && op == token.LSS && b.Comment == "for.loop" {
				c.check(sameValue(y, full), "getProgressBar/colour-loop-bound", c.ipos(i), "the coloured cells loop to the clamped count", "the coloured-cell loop is bounded by an unclamped value")
			}
		}
	}
	// the pane width from the peer is bounded before it sizes the bar: checked by C12 (taint), noted here
}

func c20R2(c *Ctx) {
	f := c.fn("textProgressBar.showProgress")
	n := 0
	for _, ci := range callsIn(f, idIs("fmt.Sprintf")) {
		fm, _ := constString(ci.Common().Args[0])
		if !strings.HasSuffix(fm, "%%") {
			continue
		}
		n++
		el, ok := sliceElems(ci.Common().Args[1])
		if !ok || len(el) != 1 {
			c.bad("showProgress/percent-arg", c.ipos(ci), "cannot identify the percentage argument")
			continue
		}
		isF := func(k float64) func(ssa.Value) bool {
			return func(v ssa.Value) bool {
				cv, ok := strip(v).(*ssa.Const)
				if !ok || cv.Value == nil {
					return false
				}
				return cv.Float64() == k
			}
		}
		ok2, why := clampedBetween(strip(el[0].V), isF(0), isF(100))
		c.check(ok2, "showProgress/percent-clamped", c.ipos(ci), "the percentage formatted is clamped to 0..100", "the percentage can leave 0..100: "+why)
	}
	// the step is a peer value up to 2^62: scaling it in integer arithmetic overflows
	eachInstr(f, func(in ssa.Instruction) {
		b, ok := in.(*ssa.BinOp)
		if !ok || (b.Op != token.MUL && b.Op != token.SHL) || !isIntegerOnly(b.Type()) {
			return
		}
		for _, o := range []ssa.Value{b.X, b.Y} {
			if isFieldLoad("fileStep")(o) || isFieldLoad("fileSize")(o) {
				c.bad("showProgress/no-integer-scaling", c.ipos(b), "the step/size is multiplied in integer arithmetic: for sizes near 2^62 the product wraps and the percentage jumps backwards")
			}
		}
	})
	c.ok("showProgress/no-integer-scaling.checked", c.pos(f.Pos()), "step and size are scaled in floating point only")
	c.check(n == 1, "showProgress/one-percent-format", c.pos(f.Pos()), "one percentage format", "unexpected number of percentage formats")
}

func c20R3(c *Ctx) {
	n := 0
	for _, f := range c.AllFns {
		fname := c.fnName(f)
		eachInstr(f, func(in ssa.Instruction) {
			st, ok := in.(*ssa.Store)
			if !ok {
				return
			}
			if nm, _ := fieldAddrName(st.Addr); nm != "textProgressBar.fileStep" {
				return
			}
			n++
			switch fname {
			case "textProgressBar.onName":
				c.check(isConstIntV(-1)(st.Val), "fileStep/reset@onName", c.ipos(st), "reset below every real step when a new file starts", "the step is reset to something other than -1 at file start")
			case "textProgressBar.onDone":
				c.check(isFieldLoad("fileSize")(st.Val), "fileStep/done=size", c.ipos(st), "'done' shows exactly the size", "'done' sets the step to something other than the size")
			case "textProgressBar.onStep":
				adv := factCmp(factsAt(st.Block()), token.GTR, isValue(st.Val), isFieldLoad("fileStep"))
				c.check(adv, "fileStep/monotonic@onStep", c.ipos(st), "the step is stored only when it advances", "a step that does not advance can be stored: the percentage can go backwards within a file")
			default:
				c.bad("fileStep/writer."+fname, c.ipos(st), "the displayed step is written by an unexpected function")
			}
		})
	}
	if n != 3 {
		c.bad("fileStep/writers", "", fmt.Sprintf("expected three writers of the displayed step, found %d", n))
	}
	// resumed files: the bytes kept from the existing file count towards the step and the size, and are forgotten with the next file
	type w struct {
		fn, key string
		ok      func(st *ssa.Store) bool
	}
	nPre := 0
	for _, f := range c.AllFns {
		fname := c.fnName(f)
		eachInstr(f, func(in ssa.Instruction) {
			st, ok := in.(*ssa.Store)
			if !ok {
				return
			}
			if nm, _ := fieldAddrName(st.Addr); nm != "textProgressBar.preSize" {
				return
			}
			nPre++
			switch fname {
			case "textProgressBar.onName":
				c.check(isConstIntV(0)(st.Val), "preSize/reset@onName", c.ipos(st), "the kept-prefix size is forgotten when a new file starts", "the kept-prefix size of the previous file leaks into the next one")
			case "textProgressBar.setPreSize":
				c.check(isVar("size")(st.Val), "preSize/set", c.ipos(st), "the kept-prefix size is the value reported by the resume exchange", "the kept-prefix size is not the value reported by the resume exchange")
			default:
				c.bad("preSize/writer."+fname, c.ipos(st), "the kept-prefix size is written by an unexpected function")
			}
		})
	}
	c.check(nPre == 2, "preSize/writers", "", "the kept-prefix size has its two writers (reset at file start, set by the resume exchange)", fmt.Sprintf("expected two writers of the kept-prefix size, found %d", nPre))
	os := c.fn("textProgressBar.onStep")
	eachInstr(os, func(in ssa.Instruction) {
		st, ok := in.(*ssa.Store)
		if !ok {
			return
		}
		if nm, _ := fieldAddrName(st.Addr); nm == "textProgressBar.fileStep" {
			b, isB := strip(st.Val).(*ssa.BinOp)
			good := isB && b.Op == token.ADD && ((isVar("step")(b.X) && isFieldLoad("preSize")(b.Y)) || (isVar("step")(b.Y) && isFieldLoad("preSize")(b.X)))
			c.check(good, "fileStep/includes-kept-prefix", c.ipos(st), "the displayed step is the transferred step plus the kept prefix", "the displayed step ignores the kept prefix of a resumed file: the percentage is measured against the whole size but starts from zero")
		}
	})
	oz := c.fn("textProgressBar.onSize")
	eachInstr(oz, func(in ssa.Instruction) {
		st, ok := in.(*ssa.Store)
		if !ok {
			return
		}
		if nm, _ := fieldAddrName(st.Addr); nm == "textProgressBar.fileSize" {
			b, isB := strip(st.Val).(*ssa.BinOp)
			good := isB && b.Op == token.ADD && ((isVar("size")(b.X) && isFieldLoad("preSize")(b.Y)) || (isVar("size")(b.Y) && isFieldLoad("preSize")(b.X)))
			c.check(good, "fileSize/includes-kept-prefix", c.ipos(st), "the displayed size is the announced size plus the kept prefix", "the displayed size ignores the kept prefix")
		}
	})
	// on the receiving end the source size is known from the NAME message only from protocol 4 on (a protocol-3 peer
	// sends it in a SIZE message during the resume step): wherever the receiver's name / resume steps hand a size to the
	// progress, a value read from the decoded entry is used only where the protocol was found >= 4; and no step of the
	// resume comparison is reported before a size was (else the bar shows 100 % against a size of zero and then drops)
	{
		v4 := c.constVal("kProtocolVersion4")
		isOnSize := func(in ssa.Instruction) bool {
			ci, ok := in.(ssa.CallInstruction)
			return ok && ci.Common().IsInvoke() && ci.Common().Method.Name() == "onSize"
		}
		isOnStep := func(in ssa.Instruction) bool {
			ci, ok := in.(ssa.CallInstruction)
			return ok && ci.Common().IsInvoke() && ci.Common().Method.Name() == "onStep"
		}
		nSz := 0
		for _, fn := range []string{"trzszTransfer.recvFileNameV3", "trzszTransfer.recvPrefixHash"} {
			g := c.fn(fn)
			eachInstr(g, func(in ssa.Instruction) {
				if !isOnSize(in) {
					return
				}
				nSz++
				ci := in.(ssa.CallInstruction)
				for _, l := range origins(ci.Common().Args[0], originOpts{}) {
					if !isFieldLoad("Size")(l.V) {
						continue
					}
					fs := append(append([]fact{}, factsAt(in.Block())...), l.facts()...)
					okV := factCmp(fs, token.GEQ, isFieldLoad("Protocol"), isConstIntV(v4)) || factCmp(fs, token.GTR, isFieldLoad("Protocol"), isConstIntV(v4-1))
					c.check(okV, fn+"/onSize-from-entry-only-from-v4", c.ipos(in), "the decoded entry's size is shown only where the protocol was found >= 4", "the receiver shows the decoded entry's size for a peer below protocol 4, whose NAME message carries none: the bar runs against a size of zero (100 %) and drops when the SIZE message arrives")
				}
			})
		}
		if nSz == 0 {
			c.bad("recvPrefixHash/size-before-steps", "", "the receiver's resume step never tells the progress the size")
		}
		rp := c.fn("trzszTransfer.recvPrefixHash")
		// (paths on which the progress callback was found nil report nothing at all)
		noProgress := func(from, to *ssa.BasicBlock) bool {
			for _, fc := range edgeFactsTo(from, to) {
				op, x, y, ok := cmpFact(fc)
				if ok && op == token.EQL && isNilConst(y) && isVar("progress")(x) {
					return true
				}
			}
			return false
		}
		hitS, pathS := reachFromE(rp.Blocks[0], 0, isOnStep, isOnSize, noProgress)
		if hitS != nil {
			// acceptable when every caller has told the size before calling
			okCallers := true
			for _, cs := range c.callersOf(rp) {
				dom := false
				eachInstr(cs.Caller, func(x ssa.Instruction) {
					if isOnSize(x) && domI(x, cs.Instr.(ssa.Instruction)) {
						dom = true
					}
				})
				if !dom {
					okCallers = false
				}
			}
			c.check(okCallers, "recvPrefixHash/size-before-steps", c.pos(rp.Pos()), "a size is told to the progress before the first step of the resume comparison", "steps of the resume comparison can be reported before any size was: the percentage is computed against zero", c.pathStr(pathS)...)
		} else {
			c.ok("recvPrefixHash/size-before-steps", c.pos(rp.Pos()), "a size is told to the progress before the first step of the resume comparison")
		}
	}
	// the size steps of both ends tell the bar the size they exchanged (and nothing else of the same signature): with a
	// progress callback present no successful exit of the step avoids onSize(size)
	for _, nm := range []string{"trzszTransfer.sendFileSize", "trzszTransfer.recvFileSize"} {
		g := c.fn(nm)
		isSizeCall := func(in ssa.Instruction) bool {
			ci, ok := in.(ssa.CallInstruction)
			return ok && ci.Common().IsInvoke() && ci.Common().Method.Name() == "onSize"
		}
		hitZ, pathZ := reachFromE(g.Blocks[0], 0, isNilErrReturn, isSizeCall, func(from, to *ssa.BasicBlock) bool {
			for _, fc := range edgeFactsTo(from, to) {
				op, x, y, ok := cmpFact(fc)
				if ok && op == token.EQL && isNilConst(y) && isVar("progress")(x) {
					return true
				}
			}
			return false
		})
		c.check(hitZ == nil, nm+"/tells-the-bar-the-size", c.pos(g.Pos()), "the size step always tells the progress the file's size", "the size step can succeed without telling the progress the size: the percentage is computed against the previous file's size or zero", c.pathStr(pathZ)...)
		eachInstr(g, func(in ssa.Instruction) {
			if !isSizeCall(in) {
				return
			}
			arg := in.(ssa.CallInstruction).Common().Args[0]
			okA := isVar("size")(arg)
			if call, idx := callOf(arg); call != nil && idx == 0 && calleeID(&call.Call) == tT+"recvInteger" {
				okA = true
			}
			c.check(okA, nm+"/onSize=exchanged-size", c.ipos(in), "the size shown is the size exchanged", "the size shown is not the size exchanged in this step")
		})
	}
	// the size a step is measured against is the whole source size on both ends of a resume
	for _, nm := range []struct{ fn string }{{"trzszTransfer.sendPrefixHash"}, {"trzszTransfer.recvPrefixHash"}} {
		g := c.fn(nm.fn)
		for _, ci := range callsIn(g, idHasSuffix(".onSize")) {
			good := true
			for _, l := range origins(ci.Common().Args[0], originOpts{}) {
				call, idx := callOf(l.V)
				isRecvSize := call != nil && idx == 0 && calleeID(&call.Call) == tT+"recvInteger"
				if !isRecvSize && !(isFieldLoad("Size")(l.V) && func() bool { b, _, _ := fieldOf(l.V); return isVar("srcFile")(b) }()) {
					good = false
				}
			}
			c.check(good, nm.fn+"/onSize=source-size", c.ipos(ci), "during the resume comparison the progress is measured against the whole source size", "during the resume comparison the progress size is not the source size: the percentage reaches 100% and then drops")
		}
	}
}

func c20R4(c *Ctx) {
	f := c.fn("textProgressBar.getProgressText")
	barMin := int64(24)
	// the join block after the ladder: the block with the most predecessors holding phis named left/leftLength/right
	var done *ssa.BasicBlock
	for _, b := range f.Blocks {
		if len(b.Preds) >= 5 && (done == nil || len(b.Preds) > len(done.Preds)) {
			done = b
		}
	}
	if done == nil {
		c.lost("ladder exit block in getProgressText")
	}
	// the three merged values at the ladder exit, identified by role: the (possibly shortened) name is the string
	// that can come out of getEllipsisString, its display width is the integer, the right-hand part is the other string
	var pl, pw, pr *ssa.Phi
	for _, in := range done.Instrs {
		p, ok := in.(*ssa.Phi)
		if !ok {
			continue
		}
		if bt, isB := p.Type().Underlying().(*types.Basic); isB && bt.Info()&types.IsInteger != 0 {
			if pw != nil {
				c.lost("a single integer (name width) at the ladder exit")
			}
			pw = p
			continue
		}
		fromEllipsis := false
		for _, l := range origins(p, originOpts{}) {
			if call, idx := callOf(l.V); call != nil && idx == 0 && calleeID(&call.Call) == "trzsz.getEllipsisString" {
				fromEllipsis = true
			}
		}
		if fromEllipsis {
			pl = p
		} else {
			pr = p
		}
	}
	if pl == nil || pw == nil || pr == nil {
		c.lost("name / name width / right part at the ladder exit")
	}
	fallbacks := 0
	// number the exits in source order (the order of done.Preds depends on how the branches are written)
	order := map[*ssa.BasicBlock]int{}
	{
		var ifs []*ssa.BasicBlock
		for _, p := range done.Preds {
			if blockIf(p) != nil {
				ifs = append(ifs, p)
			}
		}
		sort.Slice(ifs, func(a, b int) bool { return blockIf(ifs[a]).Cond.Pos() < blockIf(ifs[b]).Cond.Pos() })
		for n, p := range ifs {
			order[p] = n
		}
	}
	for k, p := range done.Preds {
		i := blockIf(p)
		if i == nil {
			fallbacks++
			emptyName := func() bool { s, ok := constString(pl.Edges[k]); return ok && s == "" }()
			c.check(emptyName && isConstIntV(0)(pw.Edges[k]), "ladder/last-fallback-clears-name", c.pos(f.Pos()), "the last fallback drops the name", "the unconditional fallback keeps a name that did not fit")
			continue
		}
		// the edge that leaves the ladder, whichever way the test is written
		var op token.Token
		var x, y ssa.Value
		ok := false
		for _, fc := range edgeFactsTo(p, done) {
			op, x, y, ok = cmpFact(fc)
		}
		shape := ok && op == token.GEQ && isConstIntV(barMin)(y)
		var usedW, usedR ssa.Value
		if shape {
			if b1, ok := strip(x).(*ssa.BinOp); ok && b1.Op == token.SUB {
				if lc, _ := callOf(b1.Y); lc != nil && calleeID(&lc.Call) == "builtin len" {
					usedR = lc.Call.Args[0]
				}
				if b2, ok := strip(b1.X).(*ssa.BinOp); ok && b2.Op == token.SUB {
					usedW = b2.Y
					if call, _ := callOf(b2.X); call == nil || !isAtomicOnField(call, "columns", "Load") {
						shape = false
					}
				}
			}
		}
		good := shape && usedW != nil && usedR != nil && sameValue(usedW, pw.Edges[k]) && sameValue(usedR, pr.Edges[k])
		c.check(good, fmt.Sprintf("ladder/exit%d-fit-test", order[p]), c.ipos(i), "this exit is taken only when columns - nameWidth - len(right) >= 24 for exactly the name/right it leaves with",
			"a ladder exit is not guarded by the fit test on the values it leaves with (the line can exceed the width)")
	}
	c.check(fallbacks == 1, "ladder/one-fallback", c.pos(f.Pos()), "exactly one unconditional fallback", fmt.Sprintf("%d unconditional exits from the ladder", fallbacks))
	// shortened name and its width come from the same call
	for _, ci := range callsIn(f, idIs("trzsz.getEllipsisString")) {
		call := ci.(*ssa.Call)
		e0, e1 := extractOf(call, 0), extractOf(call, 1)
		good := e0 != nil && e1 != nil
		if good {
			// wherever e0 flows into a phi edge, the sibling width phi takes e1 on that edge
			for _, r := range referrersOf(e0) {
				p0, ok := r.(*ssa.Phi)
				if !ok {
					continue
				}
				for idx, e := range p0.Edges {
					if e != e0 {
						continue
					}
					paired := false
					for _, in := range p0.Block().Instrs {
						if p1, ok := in.(*ssa.Phi); ok && p1 != p0 && p1.Edges[idx] == e1 {
							paired = true
						}
					}
					if !paired {
						good = false
					}
				}
			}
		}
		c.check(good, "ladder/name-width-paired", c.ipos(ci), "a shortened name is always used with the width the same call returned", "a shortened name is used with a width from somewhere else")
		// guard: only shorten when wider than the budget
		budget := ci.Common().Args[1]
		c.check(factCmp(factsAt(ci.Block()), token.GTR, anyValue, isValue(budget)), "ladder/shorten-only-when-wider", c.ipos(ci), "the name is shortened only when it is wider than the budget", "the name is shortened unconditionally")
	}
	// right-hand formats are ASCII
	for _, ci := range callsIn(f, idIs("fmt.Sprintf")) {
		fm, _ := constString(ci.Common().Args[0])
		ascii := true
		for _, r := range fm {
			if r > 126 {
				ascii = false
			}
		}
		c.check(ascii, "ladder/ascii-format", c.ipos(ci), "format is ASCII, so len() is its display width", "a non-ASCII format is measured with len()")
	}
	// the name's width is measured by display width
	c.check(len(callsIn(f, idIs("github.com/mattn/go-runewidth.StringWidth"))) == 1, "ladder/name-display-width", c.pos(f.Pos()), "the name is measured by display width", "the name is no longer measured by display width")
	// bar length = columns - len(right) [- (nameWidth+1)]
	for _, ci := range callsIn(f, idIs("(*trzsz.textProgressBar).getProgressBar")) {
		good := true
		for _, l := range origins(ci.Common().Args[1], originOpts{}) {
			b, ok := l.V.(*ssa.BinOp)
			if !ok || b.Op != token.SUB {
				good = false
			}
		}
		c.check(good, "ladder/bar-length", c.ipos(ci), "the bar gets what is left of the width", "bar length is not derived by subtraction from the width")
	}
}

func c20R5(c *Ctx) {
	f := c.fn("getEllipsisString")
	// the width accumulator advances only by RuneWidth(r) of the rune that is written
	var rw *ssa.Call
	for _, ci := range callsIn(f, idIs("github.com/mattn/go-runewidth.RuneWidth")) {
		rw, _ = ci.(*ssa.Call)
	}
	if rw == nil {
		c.bad("getEllipsisString/rune-width", c.pos(f.Pos()), "runes are no longer measured with RuneWidth")
		return
	}
	n := 0
	eachInstr(f, func(in ssa.Instruction) {
		p, ok := in.(*ssa.Phi)
		if !ok {
			return
		}
		// the width accumulator, by role: the integer phi one of whose edges adds a RuneWidth result to it
		isAcc := false
		for _, e := range p.Edges {
			if b, ok := e.(*ssa.BinOp); ok && b.Op == token.ADD && (b.X == ssa.Value(p) || b.Y == ssa.Value(p)) {
				if cx, _ := callOf(b.X); cx != nil && calleeID(&cx.Call) == "github.com/mattn/go-runewidth.RuneWidth" {
					isAcc = true
				}
				if cy, _ := callOf(b.Y); cy != nil && calleeID(&cy.Call) == "github.com/mattn/go-runewidth.RuneWidth" {
					isAcc = true
				}
			}
		}
		if !isAcc && p.Comment != "length" {
			return
		}
		for _, e := range p.Edges {
			if z, ok := constInt(e); ok && z == 0 {
				continue
			}
			n++
			b, ok := e.(*ssa.BinOp)
			good := ok && b.Op == token.ADD && ((b.X == ssa.Value(p) && b.Y == ssa.Value(rw)) || (b.Y == ssa.Value(p) && b.X == ssa.Value(rw)))
			c.check(good, "getEllipsisString/length+=RuneWidth", c.pos(e.Pos()), "the width grows by RuneWidth of each kept rune", "the accumulated width does not grow by RuneWidth of each kept rune (wide runes are under-counted)")
		}
	})
	if n == 0 {
		c.undecided("getEllipsisString/length", "no width accumulator found")
	}
	// the rune written is the rune measured, and it is written only when it still fits
	for _, ci := range callsIn(f, idIs("(*strings.Builder).WriteRune")) {
		r := ci.Common().Args[1]
		same := sameValue(r, rw.Call.Args[0])
		fits := factCmp(factsAt(ci.Block()), token.LEQ, anyValue, anyValue)
		c.check(same && fits, "getEllipsisString/write-measured-rune", c.ipos(ci), "a rune is kept only after its width was found to fit", "a rune is kept without the fit test on its own width")
	}
	// budget reserves the three dots
	sub3 := false
	eachInstr(f, func(in ssa.Instruction) {
		if b, ok := in.(*ssa.BinOp); ok && b.Op == token.SUB && isVar("max")(b.X) && isConstIntV(3)(b.Y) {
			sub3 = true
		}
	})
	c.check(sub3, "getEllipsisString/reserve-dots", c.pos(f.Pos()), "three columns are reserved for the dots", "the ellipsis is not accounted for in the budget")
	eachInstr(f, func(in ssa.Instruction) {
		r, ok := in.(*ssa.Return)
		if !ok {
			return
		}
		b, isB := strip(r.Results[1]).(*ssa.BinOp)
		c.check(isB && b.Op == token.ADD && isConstIntV(3)(b.Y), "getEllipsisString/returns-width+3", c.ipos(r), "the reported width includes the dots", "the reported width does not include the dots")
	})
}

// c20R6: the width the line is laid out for is the terminal's latest width. A resize reported to the
// filter is recorded on every path (the next bar is built from that record, and the stop prompt puts the
// record back into the live bar), and is forwarded to a live bar; the bar's setter and constructor store
// what they are given. Decided: the wiring; not decided: that the embedding application reports resizes.
func c20R6(c *Ctx) {
	f := c.fn("TrzszFilter.SetTerminalColumns")
	isCols := func(v ssa.Value) bool { p, ok := strip(v).(*ssa.Parameter); return ok && p == f.Params[1] }
	recorded := func(in ssa.Instruction) bool {
		st, ok := in.(*ssa.Store)
		if !ok {
			return false
		}
		n, _ := fieldAddrName(st.Addr)
		return strings.HasSuffix(n, ".TerminalColumns") && isCols(st.Val)
	}
	hit, path := reachFrom(f.Blocks[0], 0, isReturn, recorded)
	c.check(hit == nil, "SetTerminalColumns/always-recorded", c.pos(f.Pos()), "a reported width is recorded on every path", "a reported width is not recorded when a progress bar is live: the next bar (and the bar after the stop prompt) is laid out for the old, possibly wider terminal", c.pathStr(path)...)
	{
		// forwarded whenever a bar is live: from the non-nil edge of the progress load no exit without the forward
		hitF, pathF := reachFromE(f.Blocks[0], 0, isReturn, func(in ssa.Instruction) bool {
			ci, ok := in.(ssa.CallInstruction)
			return ok && calleeID(ci.Common()) == "(*trzsz.textProgressBar).setTerminalColumns"
		}, func(from, to *ssa.BasicBlock) bool {
			for _, fc := range edgeFactsTo(from, to) {
				op, x, y, ok := cmpFact(fc)
				if !ok || op != token.EQL || !isNilConst(y) {
					continue
				}
				if call, _ := callOf(x); call != nil && isAtomicOnField(call, "progress", "Load") {
					return true
				}
			}
			return false
		})
		c.check(hitF == nil, "SetTerminalColumns/always-forwarded", c.pos(f.Pos()), "with a live bar the reported width always reaches it", "a reported width can fail to reach the live progress bar", c.pathStr(pathF)...)
	}
	fwd := callsIn(f, idIs("(*trzsz.textProgressBar).setTerminalColumns"))
	c.check(len(fwd) > 0, "SetTerminalColumns/forwarded", c.pos(f.Pos()), "a reported width is forwarded to the live bar", "a reported width is not forwarded to the live progress bar")
	for _, ci := range fwd {
		c.check(isCols(ci.Common().Args[1]), "SetTerminalColumns/forwards-its-argument", c.ipos(ci), "the forwarded width is the reported one", "the width forwarded to the live bar is not the reported one")
	}
	// the only other source of a live bar's width is the filter's record
	n := 0
	for _, g := range c.AllFns {
		if g == f {
			continue
		}
		for _, ci := range callsIn(g, idIs("(*trzsz.textProgressBar).setTerminalColumns")) {
			n++
			c.check(isFieldLoad("TerminalColumns")(ci.Common().Args[1]), c.fnName(g)+"/width-from-record", c.ipos(ci), "the width put back into the bar is the filter's record", "a width other than the filter's record is put into the live bar")
		}
		for _, ci := range callsIn(g, idIs("trzsz.newTextProgressBar")) {
			if !strings.HasPrefix(c.fnName(g), "TrzszFilter.") {
				continue
			}
			n++
			c.check(isFieldLoad("TerminalColumns")(ci.Common().Args[1]), c.fnName(g)+"/bar-built-from-record", c.ipos(ci), "the client's bar is built for the recorded width", "the client's progress bar is built for a width other than the filter's record")
		}
	}
	if n < 2 {
		c.undecided("width-from-record/sites", "fewer width hand-overs than expected")
	}
	// setter and constructor store what they were given
	for _, nm := range []string{"textProgressBar.setTerminalColumns", "newTextProgressBar"} {
		g := c.fn(nm)
		var stores []ssa.CallInstruction
		for _, ci := range callsIn(g, anyID) {
			if isAtomicOnField(ci, "columns", "Store") {
				stores = append(stores, ci)
			}
		}
		if len(stores) == 0 {
			c.bad(nm+"/stores-width", c.pos(g.Pos()), "the width is never stored")
			continue
		}
		{
			// on every path (a nil receiver excepted): no exit before the store
			hit, path := reachFromE(g.Blocks[0], 0, isReturn, c.orWrapper("columns.Store", func(in ssa.Instruction) bool {
				ci, ok := in.(ssa.CallInstruction)
				return ok && isAtomicOnField(ci, "columns", "Store")
			}), func(from, to *ssa.BasicBlock) bool {
				for _, fc := range edgeFactsTo(from, to) {
					op, x, y, ok := cmpFact(fc)
					if ok && op == token.EQL && isNilConst(y) && len(g.Params) > 0 && x == ssa.Value(g.Params[0]) {
						return true
					}
				}
				return false
			})
			c.check(hit == nil, nm+"/always-stores-width", c.pos(g.Pos()), "the width given is stored on every path", "the width given can be ignored (an early return before the store): the line keeps being laid out for the old width", c.pathStr(path)...)
		}
		for _, ci := range stores {
			okV := true
			for _, l := range origins(ci.Common().Args[1], originOpts{}) {
				if isVar("columns")(l.V) {
					continue
				}
				// the constructor may derive it from the pane width (pane - 1)
				if b, isB := strip(l.V).(*ssa.BinOp); isB && nm == "newTextProgressBar" && b.Op == token.SUB && isConstIntV(1)(b.Y) {
					continue
				}
				okV = false
			}
			c.check(okV, nm+"/stores-width", c.ipos(ci), "the stored width is the one given (or pane width - 1)", "the stored width is not the one given")
		}
	}
}

// c20R7: rendering never fails — every count handed to a panicking-on-negative library call in the functions the
// progress line is rendered by (strings.Builder.Grow, bytes.Buffer.Grow, strings.Repeat) is provably not negative:
// a non-negative constant, a value with a dominating fact v >= k / v > k (k >= 0), the result of a clamp, or a
// parameter of the enclosing function all of whose call sites (two levels) pass such a value.
func c20R7(c *Ctx) {
	roots := []*ssa.Function{c.fn("textProgressBar.showProgress")}
	reach := c.reachableFrom(roots...)
	var nonNeg func(v ssa.Value, at *ssa.BasicBlock, depth int) (bool, string)
	nonNeg = func(v ssa.Value, at *ssa.BasicBlock, depth int) (bool, string) {
		for _, l := range origins(v, originOpts{}) {
			lv := strip(l.V)
			if k, isC := constInt(lv); isC {
				if k < 0 {
					return false, "negative constant"
				}
				continue
			}
			fs := append(append([]fact{}, factsAt(at)...), l.facts()...)
			isNN := func(k ssa.Value) bool { z, ok := constInt(k); return ok && z >= 0 }
			if factCmp(fs, token.GEQ, isValue(lv), isNN) || factCmp(fs, token.GTR, isValue(lv), isNN) {
				continue
			}
			if lc, _ := callOf(lv); lc != nil && (calleeID(&lc.Call) == "builtin len" || isMinFunc(lc.Call.StaticCallee()) && false) {
				continue
			}
			if p, isP := lv.(*ssa.Parameter); isP && depth < 2 {
				fn := p.Parent()
				idx := -1
				for i, q := range fn.Params {
					if q == p {
						idx = i
					}
				}
				sites := c.callersOf(fn)
				if idx < 0 || len(sites) == 0 {
					return false, "parameter " + p.Name() + " with no visible caller"
				}
				for _, cs := range sites {
					args := cs.Instr.Common().Args
					if idx >= len(args) {
						return false, "call site shape"
					}
					if ok, why := nonNeg(args[idx], cs.Instr.Block(), depth+1); !ok {
						return false, "call at " + c.ipos(cs.Instr) + ": " + why
					}
				}
				continue
			}
			return false, "value " + lv.String() + " is not bounded from below"
		}
		return true, ""
	}
	n := 0
	for _, f := range c.AllFns {
		if !reach[f] || !c.inPkg(f) {
			continue
		}
		for _, ci := range callsIn(f, idIs("(*strings.Builder).Grow", "(*bytes.Buffer).Grow", "strings.Repeat")) {
			if calleeID(ci.Common()) == "strings.Repeat" && c.fnName(f) == "textProgressBar.getProgressBar" {
				continue // the bar's cell counts: clamp structure checked by C20-R1
			}
			n++
			arg := ci.Common().Args[1]
			ok, why := nonNeg(arg, ci.Block(), 0)
			id := calleeID(ci.Common())
			c.check(ok, "non-negative/"+c.fnName(f)+"/"+id[strings.LastIndex(id, ".")+1:], c.ipos(ci), "the count cannot be negative", "a count that can be negative reaches a call that panics on a negative count (rendering fails): "+why)
		}
	}
	if n < 1 {
		c.undecided("non-negative/sites", "no Grow / Repeat site found in the rendering functions")
	}
}

// c20R8: rendering never fails — every access a[i] with a non-constant index into a fixed-size array in the
// progress-line code (progress.go) is provably in range:
//
//	(loop counter)  i is a variable that starts at a constant in range and is only ever incremented by one on an edge
//	                where i < K was established, with K <= len(a)-1 (so i <= K);
//	(ring index)    i is a field; every store to that field in the package is a constant in range, or is followed on
//	                every path to the function's return by the wrap test `field >= K` (K <= len(a)) whose taken edge
//	                stores a constant in range;
//	(guarded)       a dominating fact i < K with K <= len(a) (and i >= 0 by construction of the two shapes above).
//
// Anything else is reported: it may be fine, but then it is not of a shape this rule can vouch for.
func c20R8(c *Ctx) {
	arrayLen := func(v ssa.Value) (int64, bool) {
		t := v.Type()
		if p, ok := t.Underlying().(*types.Pointer); ok {
			t = p.Elem()
		}
		if a, ok := t.Underlying().(*types.Array); ok {
			return a.Len(), true
		}
		return 0, false
	}
	inFile := func(f *ssa.Function) bool {
		return strings.HasSuffix(c.Fset.Position(f.Pos()).Filename, "/progress.go")
	}
	constLE := func(v ssa.Value, max int64) bool { k, ok := constInt(v); return ok && k <= max }
	n := 0
	for _, f := range c.AllFns {
		if !inFile(f) {
			continue
		}
		eachInstr(f, func(in ssa.Instruction) {
			var base, idx ssa.Value
			switch x := in.(type) {
			case *ssa.IndexAddr:
				base, idx = x.X, x.Index
			case *ssa.Index:
				base, idx = x.X, x.Index
			default:
				return
			}
			L, isArr := arrayLen(base)
			symbolic := false // the length is only known as len(base): bounds must be written in terms of it
			if !isArr {
				// a package-level table written as a slice literal: its length is len(base)
				u, isLoad := strip(base).(*ssa.UnOp)
				if !isLoad {
					return
				}
				if _, isG := u.X.(*ssa.Global); !isG {
					return
				}
				symbolic = true
				L = 1 << 40
			}
			lenOfBase := func(v ssa.Value) bool {
				lc, _ := callOf(v)
				if lc == nil || calleeID(&lc.Call) != "builtin len" {
					return false
				}
				a, ok1 := strip(lc.Call.Args[0]).(*ssa.UnOp)
				b, ok2 := strip(base).(*ssa.UnOp)
				return ok1 && ok2 && a.X == b.X
			}
			// upTo(v, d): v is a bound that guarantees index <= len - d (d = 0: v <= len; d = 1: v <= len-1)
			upTo := func(v ssa.Value, d int64) bool {
				if !symbolic {
					return constLE(v, L-d)
				}
				if d == 0 && lenOfBase(v) {
					return true
				}
				if bo, isB := strip(v).(*ssa.BinOp); isB && bo.Op == token.SUB && lenOfBase(bo.X) {
					k, isC := constInt(bo.Y)
					return isC && k >= d
				}
				return false
			}
			if k, isC := constInt(idx); isC {
				_ = k // constant indexes are checked by the compiler
				return
			}
			n++
			key := "index-in-range/" + c.fnName(f) + "/" + chanName(base)
			// (guarded)
			if factCmp(factsAt(in.Block()), token.LSS, isValue(idx), func(v ssa.Value) bool { return upTo(v, 0) }) {
				c.ok(key, c.ipos(in), "dominated by index < bound <= length")
				return
			}
			ringOK := func(fld string) (bool, string) {
				good, why := true, ""
				nSt := 0
				for _, g := range c.AllFns {
					eachInstr(g, func(x ssa.Instruction) {
						st, ok := x.(*ssa.Store)
						if !ok {
							return
						}
						if nm, _ := fieldAddrName(st.Addr); !strings.HasSuffix(nm, "."+fld) {
							return
						}
						nSt++
						if k, isC := constInt(st.Val); isC {
							if k < 0 || k >= L {
								good, why = false, "is set to a constant out of range"
							}
							return
						}
						// followed by the wrap test before the function returns
						hit, _ := reachAvoid(st, isReturn, func(y ssa.Instruction) bool {
							i, isIf := y.(*ssa.If)
							if !isIf {
								return false
							}
							op, a, bnd, okC := cmpFact(normFact(fact{V: i.Cond, Pol: true}))
							if !okC || op != token.GEQ || !isFieldLoad(fld)(a) || !constLE(bnd, L) {
								return false
							}
							// the taken edge stores a constant in range
							okReset := false
							for _, z := range i.Block().Succs[0].Instrs {
								if s2, isS := z.(*ssa.Store); isS {
									if nm2, _ := fieldAddrName(s2.Addr); strings.HasSuffix(nm2, "."+fld) {
										if k2, isC2 := constInt(s2.Val); isC2 && k2 >= 0 && k2 < L {
											okReset = true
										}
									}
								}
							}
							return okReset
						})
						if hit != nil {
							good, why = false, "is advanced at "+c.ipos(st)+" without the wrap-around test following on every path"
						}
					})
				}
				return good && nSt > 0, why
			}
			// (loop counter)
			if p, isPhi := strip(idx).(*ssa.Phi); isPhi {
				good, why := true, ""
				for k, e := range p.Edges {
					if c0, isC := constInt(e); isC {
						if c0 < 0 || (!symbolic && c0 >= L) || (symbolic && c0 != 0) {
							good, why = false, "starts out of range"
						}
						continue
					}
					if _, fld, isF := fieldOf(e); isF && !symbolic {
						// `base := 0; if full { base = ring.idx }`: the ring index picked into a local
						if okR, whyR := ringOK(fld); !okR {
							good, why = false, "takes the ring index "+fld+", which "+whyR
						}
						continue
					}
					b, isB := e.(*ssa.BinOp)
					if !isB || b.Op != token.ADD || !isConstIntV(1)(b.Y) || strip(b.X) != ssa.Value(p) {
						good, why = false, "is changed otherwise than by +1"
						continue
					}
					pred := p.Block().Preds[k]
					fs := append(append([]fact{}, factsAt(b.Block())...), edgeFactsTo(pred, p.Block())...)
					if !factCmp(fs, token.LSS, isValue(p), func(v ssa.Value) bool { return upTo(v, 1) }) {
						good, why = false, "is incremented without an established bound index < K with K <= length - 1"
					}
				}
				c.check(good, key, c.ipos(in), "loop counter bounded below the array length", "the index into a fixed-size array "+why+": it can reach the array's length (index out of range while rendering)")
				return
			}
			// (ring index): a field
			if _, fld, isF := fieldOf(idx); isF && !symbolic {
				good, why := ringOK(fld)
				c.check(good, key, c.ipos(in), "ring index: every store is a constant in range or is followed by the wrap-around test", "the ring index "+fld+" "+why+": it can reach the array's length (index out of range while rendering)")
				return
			}
			c.bad(key, c.ipos(in), "a variable index into a fixed-size array that is neither a bounded loop counter, nor a ring index with its wrap-around test, nor guarded by index < length")
		})
	}
	if n < 2 {
		c.undecided("index-in-range/sites", "fewer variable-index array accesses in the progress code than expected")
	}
}

// c20R9: the percentage is step*100/size as a float; for an absurd step/size pair it does not fit an int64, and the
// conversion of such a float is implementation-defined (MinInt64 on amd64: the later clamp turns 100% into 0%, the
// percentage decreases). In showProgress (with helpers the reference tree does not have expanded) a float is
// converted to an integer only where an upper bound on that float has been established.
func c20R9(c *Ctx) {
	f := c.fn("textProgressBar.showProgress")
	n := 0
	eachInstr(f, func(in ssa.Instruction) {
		cv, ok := in.(*ssa.Convert)
		if !ok {
			return
		}
		from, okF := cv.X.Type().Underlying().(*types.Basic)
		to, okT := cv.Type().Underlying().(*types.Basic)
		if !okF || !okT || from.Info()&types.IsFloat == 0 || to.Info()&types.IsInteger == 0 {
			return
		}
		n++
		good := true
		fs := factsAt(cv.Block())
		for _, l := range origins(cv.X, originOpts{}) {
			if _, isK := l.V.(*ssa.Const); isK {
				continue
			}
			all := append(append([]fact{}, fs...), l.facts()...)
			bounded := factCmp(all, token.LEQ, isValue(l.V), anyValue) || factCmp(all, token.LSS, isValue(l.V), anyValue)
			if !bounded {
				good = false
			}
		}
		c.check(good, fmt.Sprintf("showProgress/float-clamped-before-int.%d", n), c.ipos(cv), "the float is bounded above where it is converted", "a float of the progress computation is converted to an integer before it is clamped: a ratio that does not fit an integer becomes an arbitrary value (the percentage can fall from 100% to 0%)")
	})
	if n == 0 {
		c.ok("showProgress/float-clamped-before-int", c.pos(f.Pos()), "showProgress converts no float to an integer (the percentage is formatted as a float after its clamp)")
	}
}

// c20R10: after the stop/continue prompt the bar is told the terminal width again. The width must be the one in force
// when the prompt ends (the terminal may have been resized while it was shown). `defer bar.setTerminalColumns(w)`
// evaluates w when the defer statement runs — before the prompt — and later overwrites a newer width: a deferred
// width setter must sit inside a deferred closure that reads the width when it runs.
func c20R10(c *Ctx) {
	n := 0
	for _, f := range c.AllFns {
		eachInstr(f, func(in ssa.Instruction) {
			d, ok := in.(*ssa.Defer)
			if !ok {
				return
			}
			id := calleeID(&d.Call)
			if !strings.HasSuffix(id, ".setTerminalColumns") && !strings.HasSuffix(id, ".SetTerminalColumns") {
				return
			}
			n++
			constArg := true
			for i, a := range d.Call.Args {
				if i == 0 && !d.Call.IsInvoke() {
					continue // the receiver
				}
				if _, isK := a.(*ssa.Const); !isK {
					constArg = false
				}
			}
			c.check(constArg, "deferred-width/"+c.fnName(f), c.ipos(d), "no width is captured at defer time", "a width setter is deferred with its argument evaluated at the defer statement: a resize in the meantime is overwritten with the stale width when the function returns (lines wider than the terminal)")
		})
	}
	if n == 0 {
		c.ok("deferred-width/none", "", "no width setter is deferred with a captured argument (the one after the stop prompt runs inside a deferred closure)")
	}
}
