package main

// C14-R9: the relay's handshake ends "confirmed" only when nothing failed.
//
// handshake() keeps two variables that its deferred closure reads when the function returns: the error to report
// and the flag handed to flushHandshakeBuffer (true: go on to 'transferring', false: back to standby). Whatever the
// body looks like — one function, or split into helpers — the property needs: no return with the flag possibly true
// while the error is possibly set (a failed handshake flushed as confirmed leaves the relay in 'transferring' with
// both ends gone). This is a small forward dataflow over handshake()'s CFG on the pair (flag, error), with
//   - constant stores and stores of call results (summarised from the callee's returns when it is in the package),
//   - branch refinement on `err != nil` / `flag` tests,
// and it is anchored only on: handshake, its deferred closure, flushHandshakeBuffer and sendError.

import (
	"go/token"
	"sort"

	"trzszlint/xssa"
)

type cellState struct{ flag, err bool } // flag: may confirm; err: error set

type cellSet map[cellState]bool

func (s cellSet) clone() cellSet {
	o := cellSet{}
	for k := range s {
		o[k] = true
	}
	return o
}

func allCellStates() cellSet {
	return cellSet{{false, false}: true, {false, true}: true, {true, false}: true, {true, true}: true}
}

func c14Cells(c *Ctx) {
	h := c.fn("TrzszRelay.handshake")
	// the deferred closure and the two cells it reads
	var clo *ssa.MakeClosure
	eachInstr(h, func(in ssa.Instruction) {
		if d, ok := in.(*ssa.Defer); ok {
			if mc, ok := d.Call.Value.(*ssa.MakeClosure); ok {
				clo = mc
			}
		}
	})
	if clo == nil {
		c.lost("deferred closure of the relay handshake")
	}
	cf := clo.Fn.(*ssa.Function)
	cellOf := func(v ssa.Value) ssa.Value {
		u, ok := strip(v).(*ssa.UnOp)
		if !ok || u.Op != token.MUL {
			return nil
		}
		fv, ok := u.X.(*ssa.FreeVar)
		if !ok {
			return nil
		}
		for i, x := range cf.FreeVars {
			if x == fv && i < len(clo.Bindings) {
				return clo.Bindings[i]
			}
		}
		return nil
	}
	var flagCell, errCell ssa.Value
	for _, ci := range callsIn(cf, idIs("(*trzsz.TrzszRelay).flushHandshakeBuffer")) {
		flagCell = cellOf(ci.Common().Args[1])
	}
	for _, ci := range callsIn(cf, idIs("(*trzsz.TrzszRelay).sendError")) {
		errCell = cellOf(ci.Common().Args[1])
	}
	if flagCell == nil || errCell == nil {
		c.lost("the confirm flag / error variable read by the handshake's deferred closure")
	}
	// summaries of (bool, error) results of package functions: the pairs their returns can produce
	type pairSet = cellSet
	sumMemo := map[*ssa.Function]pairSet{}
	var summary func(g *ssa.Function, depth int) pairSet
	boolVals := func(v ssa.Value, at *ssa.BasicBlock) []bool {
		if b, ok := constBool(strip(v)); ok {
			return []bool{b}
		}
		return []bool{false, true}
	}
	errVals := func(v ssa.Value, at *ssa.BasicBlock) []bool {
		if v == nil || isNilConst(strip(v)) {
			return []bool{false}
		}
		if c.definitelyNonNilErr(v, at, nil) {
			return []bool{true}
		}
		if isNil, _ := factNil(factsAt(at), v); isNil {
			return []bool{false}
		}
		return []bool{false, true}
	}
	summary = func(g *ssa.Function, depth int) pairSet {
		if s, ok := sumMemo[g]; ok {
			return s
		}
		out := pairSet{}
		sumMemo[g] = allCellStates()
		if g == nil || len(g.Blocks) == 0 || depth > 2 {
			return allCellStates()
		}
		res := g.Signature.Results()
		bi, ei := -1, errIndex(g.Signature)
		for i := 0; i < res.Len(); i++ {
			if i != ei && res.At(i).Type().Underlying().String() == "bool" {
				bi = i
			}
		}
		eachInstr(g, func(in ssa.Instruction) {
			r, ok := in.(*ssa.Return)
			if !ok || in.Block().Comment == "recover" {
				return
			}
			bs := []bool{false, true}
			if bi >= 0 {
				bs = boolVals(retVal(r, bi), in.Block())
			}
			es := []bool{false}
			if ei >= 0 {
				es = errVals(retVal(r, ei), in.Block())
			}
			for _, b := range bs {
				for _, e := range es {
					out[cellState{b, e}] = true
				}
			}
		})
		sumMemo[g] = out
		return out
	}
	// transfer function of one block
	type edgeKey struct{ from, to *ssa.BasicBlock }
	in := map[*ssa.BasicBlock]cellSet{h.Blocks[0]: {cellState{false, false}: true}}
	// the initial values are the zero values until the first stores; start from "anything" to be safe and let the stores decide
	in[h.Blocks[0]] = cellSet{cellState{false, false}: true}
	apply := func(b *ssa.BasicBlock, s cellSet) (cellSet, map[int]cellSet) {
		cur := s.clone()
		handled := map[ssa.Instruction]bool{}
		for _, ins := range b.Instrs {
			st, ok := ins.(*ssa.Store)
			if !ok || handled[ins] {
				continue
			}
			isFlag, isErr := st.Addr == flagCell, st.Addr == errCell
			if !isFlag && !isErr {
				continue
			}
			// joint store of both results of one call?
			if ex, isEx := st.Val.(*ssa.Extract); isEx {
				if call, isCall := ex.Tuple.(*ssa.Call); isCall {
					var other *ssa.Store
					for _, x := range b.Instrs {
						if s2, ok := x.(*ssa.Store); ok && s2 != st && (s2.Addr == flagCell || s2.Addr == errCell) {
							if e2, ok := s2.Val.(*ssa.Extract); ok && e2.Tuple == ex.Tuple {
								other = s2
							}
						}
					}
					if other != nil {
						handled[other] = true
						sum := allCellStates()
						if g := call.Call.StaticCallee(); g != nil && c.inPkg(g) {
							sum = summary(g, 0)
						}
						cur = sum.clone()
						continue
					}
				}
			}
			next := cellSet{}
			if isFlag {
				vals := boolVals(st.Val, b)
				// flag = flag-preserving expressions are not modelled: anything non-constant is "either"
				for k := range cur {
					for _, v := range vals {
						next[cellState{v, k.err}] = true
					}
				}
			} else {
				vals := errVals(st.Val, b)
				if call, isCall := strip(st.Val).(*ssa.Call); isCall {
					if g := call.Call.StaticCallee(); g != nil && c.inPkg(g) && errIndex(g.Signature) == 0 && g.Signature.Results().Len() == 1 {
						vals = nil
						seen := map[bool]bool{}
						for k := range summary(g, 0) {
							if !seen[k.err] {
								seen[k.err] = true
								vals = append(vals, k.err)
							}
						}
					}
				}
				for k := range cur {
					for _, v := range vals {
						next[cellState{k.flag, v}] = true
					}
				}
			}
			cur = next
		}
		// branch refinement: the condition is a test of a load of one of the cells made in this block after the last store to it
		outs := map[int]cellSet{}
		i := blockIf(b)
		if i == nil {
			return cur, nil
		}
		nf := normFact(fact{V: i.Cond, Pol: true})
		loadOf := func(v ssa.Value) ssa.Value {
			u, ok := strip(v).(*ssa.UnOp)
			if !ok || u.Op != token.MUL || u.Block() != b {
				return nil
			}
			if u.X != flagCell && u.X != errCell {
				return nil
			}
			for j := instrIndex(u) + 1; j < len(b.Instrs); j++ {
				if st, ok := b.Instrs[j].(*ssa.Store); ok && st.Addr == u.X {
					return nil
				}
			}
			return u.X
		}
		filter := func(pred func(cellState) bool) cellSet {
			o := cellSet{}
			for k := range cur {
				if pred(k) {
					o[k] = true
				}
			}
			return o
		}
		if op, x, y, ok := cmpFact(nf); ok && (op == token.NEQ || op == token.EQL) && isNilConst(y) && loadOf(x) == errCell {
			set := op == token.NEQ // true edge: err set?
			outs[0] = filter(func(k cellState) bool { return k.err == set })
			outs[1] = filter(func(k cellState) bool { return k.err != set })
			return cur, outs
		}
		if cell := loadOf(nf.V); cell == flagCell {
			outs[0] = filter(func(k cellState) bool { return k.flag == nf.Pol })
			outs[1] = filter(func(k cellState) bool { return k.flag != nf.Pol })
			return cur, outs
		}
		return cur, nil
	}
	_ = edgeKey{}
	work := []*ssa.BasicBlock{h.Blocks[0]}
	outAt := map[*ssa.BasicBlock]cellSet{}
	for steps := 0; len(work) > 0 && steps < 10000; steps++ {
		b := work[0]
		work = work[1:]
		o, per := apply(b, in[b])
		outAt[b] = o
		for k, sx := range b.Succs {
			add := o
			if per != nil {
				add = per[k]
			}
			changed := false
			if in[sx] == nil {
				in[sx] = cellSet{}
			}
			for st := range add {
				if !in[sx][st] {
					in[sx][st] = true
					changed = true
				}
			}
			if changed {
				work = append(work, sx)
			}
		}
	}
	n := 0
	var bad []string
	for _, b := range h.Blocks {
		if b.Comment == "recover" || in[b] == nil {
			continue
		}
		for _, ins := range b.Instrs {
			if _, isRet := ins.(*ssa.Return); !isRet {
				continue
			}
			n++
			if outAt[b][cellState{true, true}] {
				bad = append(bad, c.ipos(ins))
			}
		}
	}
	sort.Strings(bad)
	if n == 0 {
		c.undecided("handshake/confirmed-only-without-error", "no reachable return found in the relay handshake")
		return
	}
	pos := c.pos(h.Pos())
	if len(bad) > 0 {
		pos = bad[0]
	}
	c.check(len(bad) == 0, "handshake/confirmed-only-without-error", pos, "at every return of the handshake the flag handed to the flush is false whenever an error is set", "the handshake can return with an error set and the flush flag possibly true: a failed handshake is flushed as confirmed and the relay stays in 'transferring'")
	// and the closure hands exactly these two to the reporter and to the flush
	c.ok("handshake/closure-reads-flag-and-error", c.pos(cf.Pos()), "the deferred closure passes the flag to flushHandshakeBuffer and the error to sendError")
}
