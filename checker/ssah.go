package main

// SSA helpers shared by all rules: callee identification, dominance at instruction
// granularity, branch-edge facts, barrier reachability, value origins.

import (
	"go/constant"
	"go/token"
	"go/types"
	"strings"

	"trzszlint/xssa"
)

func shortPkg(s string) string {
	return strings.ReplaceAll(s, trzszPath, "trzsz")
}

// calleeID names the resolved callee of a call: "os.OpenFile", "(*os.File).Truncate",
// "(*trzsz.trzszTransfer).recvLine", "invoke net.Conn.Close", "builtin close", "closure trzsz.f$1", "dynamic".
func calleeID(cc *ssa.CallCommon) string {
	if cc.IsInvoke() {
		return "invoke " + shortPkg(types.TypeString(cc.Value.Type(), nil)) + "." + cc.Method.Name()
	}
	switch v := cc.Value.(type) {
	case *ssa.Builtin:
		return "builtin " + v.Name()
	case *ssa.Function:
		return trimInst(shortPkg(v.String()))
	case *ssa.MakeClosure:
		return trimInst(shortPkg(v.Fn.(*ssa.Function).String()))
	}
	return "dynamic"
}

// trimInst removes the type-argument suffix of an instantiated generic ("...CompareAndSwap[net.Conn]").
func trimInst(id string) string {
	if !strings.HasSuffix(id, "]") {
		return id
	}
	dot := strings.LastIndex(id, ").")
	if dot < 0 {
		dot = strings.LastIndex(id, ".")
	}
	if br := strings.Index(id[dot+1:], "["); br >= 0 {
		return id[:dot+1+br]
	}
	return id
}

func staticCallee(cc *ssa.CallCommon) *ssa.Function {
	return cc.StaticCallee()
}

// withAnons returns f and all functions literally nested in it.
func withAnons(f *ssa.Function) []*ssa.Function {
	out := []*ssa.Function{f}
	for _, a := range f.AnonFuncs {
		out = append(out, withAnons(a)...)
	}
	return out
}

func eachInstr(f *ssa.Function, visit func(ssa.Instruction)) {
	for _, b := range f.Blocks {
		for _, in := range b.Instrs {
			visit(in)
		}
	}
}

// callsIn lists the call instructions (call, go, defer) of f whose callee id satisfies match.
func callsIn(f *ssa.Function, match func(id string) bool) []ssa.CallInstruction {
	var out []ssa.CallInstruction
	eachInstr(f, func(in ssa.Instruction) {
		if ci, ok := in.(ssa.CallInstruction); ok {
			if match(calleeID(ci.Common())) {
				out = append(out, ci)
			}
		}
	})
	return out
}

func idIs(ids ...string) func(string) bool {
	return func(s string) bool {
		for _, id := range ids {
			if s == id {
				return true
			}
		}
		return false
	}
}

func idHasPrefix(prefixes ...string) func(string) bool {
	return func(s string) bool {
		for _, p := range prefixes {
			if strings.HasPrefix(s, p) {
				return true
			}
		}
		return false
	}
}

func idHasSuffix(suffixes ...string) func(string) bool {
	return func(s string) bool {
		for _, p := range suffixes {
			if strings.HasSuffix(s, p) {
				return true
			}
		}
		return false
	}
}

func instrIndex(in ssa.Instruction) int {
	for i, x := range in.Block().Instrs {
		if x == in {
			return i
		}
	}
	return -1
}

// domI: instruction a dominates instruction b (same function).
func domI(a, b ssa.Instruction) bool {
	if a.Block() == b.Block() {
		return instrIndex(a) <= instrIndex(b)
	}
	return a.Block().Dominates(b.Block())
}

// ---- branch-edge facts ----

// fact: value V is known to be Pol at some program point because the point is
// dominated by the corresponding edge of an If.
type fact struct {
	V   ssa.Value
	Pol bool
	If  *ssa.If
}

func blockIf(b *ssa.BasicBlock) *ssa.If {
	if len(b.Instrs) == 0 {
		return nil
	}
	i, _ := b.Instrs[len(b.Instrs)-1].(*ssa.If)
	return i
}

// edgeDominates: the edge p->p.Succs[k] dominates block b, i.e. every path to b
// goes through that edge.
func edgeDominates(p *ssa.BasicBlock, k int, b *ssa.BasicBlock) bool {
	s := p.Succs[k]
	if p.Succs[0] == p.Succs[1] {
		return false
	}
	if !s.Dominates(b) {
		return false
	}
	// every predecessor of s other than p must itself be dominated by s (back edges)
	for _, q := range s.Preds {
		if q != p && !s.Dominates(q) {
			return false
		}
	}
	// and p must not reach s through the other edge only... (covered by Dominates)
	return true
}

// factsAt returns the branch facts that hold whenever block b executes.
func factsAt(b *ssa.BasicBlock) []fact {
	var out []fact
	for d := b; d != nil; d = d.Idom() {
		p := d.Idom()
		if p == nil {
			break
		}
		// all If-terminated dominators between: only p needs checking at each level,
		// but an If in p may also guard through a non-immediate child; check all dominators.
		_ = p
	}
	for p := b.Idom(); p != nil; p = p.Idom() {
		if i := blockIf(p); i != nil {
			for k := 0; k < 2; k++ {
				if edgeDominates(p, k, b) {
					f := normFact(fact{V: i.Cond, Pol: k == 0, If: i})
					out = append(out, f)
					out = append(out, phiImplied(f, 0)...)
				}
			}
		}
	}
	return out
}

// phiImplied: what a fact on a merged boolean (`ok := a && b` ... `if ok`) implies: when all incoming edges but one
// carry the opposite constant, the merge was reached over that one edge — its value has the fact's polarity and the
// facts of that edge hold.
func phiImplied(f fact, depth int) []fact {
	phi, ok := f.V.(*ssa.Phi)
	if !ok || depth > 3 {
		return nil
	}
	if bt, isB := phi.Type().Underlying().(*types.Basic); !isB || bt.Kind() != types.Bool {
		return nil
	}
	live := -1
	for i, e := range phi.Edges {
		if cb, isC := constBool(e); isC && cb != f.Pol {
			continue
		}
		if live >= 0 {
			return nil
		}
		live = i
	}
	if live < 0 {
		return nil
	}
	var out []fact
	pred := phi.Block().Preds[live]
	if _, isC := constBool(phi.Edges[live]); !isC {
		g := normFact(fact{V: phi.Edges[live], Pol: f.Pol, If: f.If})
		out = append(out, g)
		out = append(out, phiImplied(g, depth+1)...)
	}
	if i := blockIf(pred); i != nil && pred.Succs[0] != pred.Succs[1] {
		for k := 0; k < 2; k++ {
			if pred.Succs[k] == phi.Block() {
				g := normFact(fact{V: i.Cond, Pol: k == 0, If: i})
				out = append(out, g)
				out = append(out, phiImplied(g, depth+1)...)
			}
		}
	}
	out = append(out, factsAt(pred)...)
	return out
}

// boolUnder evaluates a boolean value under assumptions on named conditions: constants, assumed conditions, negation,
// and a merged boolean whose every feasible incoming edge (one whose own facts do not contradict the assumptions)
// evaluates to the same value.
func boolUnder(v ssa.Value, as []assumption, depth int) (val, known bool) {
	if depth > 3 {
		return false, false
	}
	if cb, ok := constBool(v); ok {
		return cb, true
	}
	if u, ok := v.(*ssa.UnOp); ok && u.Op == token.NOT {
		x, k := boolUnder(u.X, as, depth+1)
		return !x, k
	}
	for _, a := range as {
		if a.pred != nil && a.truth == nil && a.cmp == nil && a.pred(v) {
			return a.val, true
		}
	}
	phi, ok := v.(*ssa.Phi)
	if !ok {
		return false, false
	}
	seen, res := false, false
	for i, e := range phi.Edges {
		pred := phi.Block().Preds[i]
		fs := factsAt(pred)
		if ifp := blockIf(pred); ifp != nil && pred.Succs[0] != pred.Succs[1] {
			for k := 0; k < 2; k++ {
				if pred.Succs[k] == phi.Block() {
					fs = append(fs, normFact(fact{V: ifp.Cond, Pol: k == 0, If: ifp}))
				}
			}
		}
		dead := false
		for _, f := range fs {
			if x, k := boolUnder(f.V, as, depth+1); k && x != f.Pol {
				dead = true
			}
		}
		if dead {
			continue
		}
		x, k := boolUnder(e, as, depth+1)
		if !k || (seen && x != res) {
			return false, false
		}
		seen, res = true, x
	}
	return res, seen
}

func normFact(f fact) fact {
	for {
		if u, ok := f.V.(*ssa.UnOp); ok && u.Op == token.NOT {
			f.V, f.Pol = u.X, !f.Pol
			continue
		}
		// x == true / x != false / ... : a fact about x
		if b, ok := f.V.(*ssa.BinOp); ok && (b.Op == token.EQL || b.Op == token.NEQ) {
			x, k := b.X, b.Y
			if _, isC := constBool(x); isC {
				x, k = b.Y, b.X
			}
			if kb, isC := constBool(k); isC {
				if _, alsoC := constBool(x); !alsoC {
					pol := f.Pol == kb
					if b.Op == token.NEQ {
						pol = !pol
					}
					f.V, f.Pol = x, pol
					continue
				}
			}
		}
		return f
	}
}

// cmpFact decodes a fact on a comparison into (op, x, y) with the polarity folded in:
// e.g. fact{a != b, false} -> (EQL, a, b).
func cmpFact(f fact) (token.Token, ssa.Value, ssa.Value, bool) {
	b, ok := f.V.(*ssa.BinOp)
	if !ok {
		return 0, nil, nil, false
	}
	op := b.Op
	if !f.Pol {
		switch op {
		case token.EQL:
			op = token.NEQ
		case token.NEQ:
			op = token.EQL
		case token.LSS:
			op = token.GEQ
		case token.GEQ:
			op = token.LSS
		case token.GTR:
			op = token.LEQ
		case token.LEQ:
			op = token.GTR
		default:
			return 0, nil, nil, false
		}
	}
	switch op {
	case token.EQL, token.NEQ, token.LSS, token.GEQ, token.GTR, token.LEQ:
		// canonical operand order: a constant (incl. nil) goes to the right, so that `0 < n`, `nil != err`
		// and `n > 0`, `err != nil` give the same decoded fact
		if _, xc := b.X.(*ssa.Const); xc {
			if _, yc := b.Y.(*ssa.Const); !yc {
				mirror := map[token.Token]token.Token{token.EQL: token.EQL, token.NEQ: token.NEQ, token.LSS: token.GTR, token.GTR: token.LSS, token.LEQ: token.GEQ, token.GEQ: token.LEQ}
				return mirror[op], b.Y, b.X, true
			}
		}
		return op, b.X, b.Y, true
	}
	return 0, nil, nil, false
}

func isNilConst(v ssa.Value) bool {
	c, ok := v.(*ssa.Const)
	return ok && c.Value == nil
}

func constInt(v ssa.Value) (int64, bool) {
	c, ok := v.(*ssa.Const)
	if !ok || c.Value == nil || c.Value.Kind() != constant.Int {
		return 0, false
	}
	n, exact := constant.Int64Val(c.Value)
	return n, exact
}

func constString(v ssa.Value) (string, bool) {
	c, ok := v.(*ssa.Const)
	if !ok || c.Value == nil || c.Value.Kind() != constant.String {
		return "", false
	}
	return constant.StringVal(c.Value), true
}

func constBool(v ssa.Value) (bool, bool) {
	c, ok := v.(*ssa.Const)
	if !ok || c.Value == nil || c.Value.Kind() != constant.Bool {
		return false, false
	}
	return constant.BoolVal(c.Value), true
}

// knownNil / knownNonNil: facts establish v == nil / v != nil.
func factNil(fs []fact, v ssa.Value) (isNil, isNonNil bool) {
	for _, f := range fs {
		op, x, y, ok := cmpFact(f)
		if !ok {
			continue
		}
		var other ssa.Value
		if sameValue(x, v) {
			other = y
		} else if sameValue(y, v) {
			other = x
		} else {
			continue
		}
		if !isNilConst(other) {
			continue
		}
		if op == token.EQL {
			isNil = true
		} else if op == token.NEQ {
			isNonNil = true
		}
	}
	return
}

// ---- value identity ----

// strip removes representation-only wrappers.
func strip(v ssa.Value) ssa.Value {
	for {
		switch x := v.(type) {
		case *ssa.Convert:
			v = x.X
		case *ssa.ChangeType:
			v = x.X
		case *ssa.ChangeInterface:
			v = x.X
		case *ssa.MakeInterface:
			v = x.X
		default:
			return v
		}
	}
}

// sameValue: identical SSA value, or two loads of the same field of the same base
// object / two pure expressions of identical shape (go/ssa performs no CSE).
func sameValue(a, b ssa.Value) bool {
	a, b = strip(a), strip(b)
	if a == b {
		return true
	}
	switch x := a.(type) {
	case *ssa.Const:
		y, ok := b.(*ssa.Const)
		return ok && x.Value != nil && y.Value != nil && constant.Compare(x.Value, token.EQL, y.Value) && types.Identical(x.Type(), y.Type())
	case *ssa.UnOp:
		y, ok := b.(*ssa.UnOp)
		if !ok || x.Op != y.Op {
			return false
		}
		if x.Op == token.MUL { // load: same address expression
			return sameAddr(x.X, y.X)
		}
		return sameValue(x.X, y.X)
	case *ssa.Call:
		y, ok := b.(*ssa.Call)
		if !ok {
			return false
		}
		// len(x)/cap(x) of the same value
		bx, ok1 := x.Call.Value.(*ssa.Builtin)
		by, ok2 := y.Call.Value.(*ssa.Builtin)
		if ok1 && ok2 && bx.Name() == by.Name() && (bx.Name() == "len" || bx.Name() == "cap") {
			return sameValue(x.Call.Args[0], y.Call.Args[0])
		}
	case *ssa.Field:
		y, ok := b.(*ssa.Field)
		return ok && x.Field == y.Field && sameValue(x.X, y.X)
	case *ssa.Slice:
		y, ok := b.(*ssa.Slice)
		return ok && sameValue(x.X, y.X) && sameOpt(x.Low, y.Low) && sameOpt(x.High, y.High) && sameOpt(x.Max, y.Max)
	case *ssa.BinOp:
		y, ok := b.(*ssa.BinOp)
		return ok && x.Op == y.Op && sameValue(x.X, y.X) && sameValue(x.Y, y.Y)
	}
	return false
}

func sameOpt(a, b ssa.Value) bool {
	if a == nil || b == nil {
		return a == nil && b == nil
	}
	return sameValue(a, b)
}

// isVar: v is the parameter, or a load of the captured/local variable, named name.
func isVar(name string) func(ssa.Value) bool {
	return func(v ssa.Value) bool {
		v = strip(v)
		switch x := v.(type) {
		case *ssa.Parameter:
			return x.Name() == name || renamedTo(x.Parent(), x, name)
		case *ssa.UnOp:
			if x.Op == token.MUL {
				switch a := x.X.(type) {
				case *ssa.FreeVar:
					return a.Name() == name || renamedTo(a.Parent(), a, name)
				case *ssa.Alloc:
					return a.Comment == name || renamedTo(a.Parent(), a, name)
				}
			}
		}
		return false
	}
}

func sameAddr(a, b ssa.Value) bool {
	if a == b {
		return true
	}
	switch x := a.(type) {
	case *ssa.FieldAddr:
		y, ok := b.(*ssa.FieldAddr)
		return ok && x.Field == y.Field && (x.X == y.X || sameValue(x.X, y.X))
	case *ssa.Global:
		return a == b
	case *ssa.IndexAddr:
		y, ok := b.(*ssa.IndexAddr)
		return ok && sameValue(x.X, y.X) && sameValue(x.Index, y.Index)
	}
	return false
}

// fieldOf: v is a load of struct field (by name) -> base value, field name.
func fieldOf(v ssa.Value) (ssa.Value, string, bool) {
	v = strip(v)
	switch x := v.(type) {
	case *ssa.UnOp:
		if x.Op == token.MUL {
			if fa, ok := x.X.(*ssa.FieldAddr); ok {
				return fa.X, fieldName(fa), true
			}
		}
	case *ssa.Field:
		st := x.X.Type().Underlying().(*types.Struct)
		return x.X, st.Field(x.Field).Name(), true
	}
	return nil, "", false
}

func fieldName(fa *ssa.FieldAddr) string {
	t := fa.X.Type().Underlying().(*types.Pointer).Elem().Underlying().(*types.Struct)
	return t.Field(fa.Field).Name()
}

// fieldAddrName: v is &x.f  -> "T.f" where T is the named struct type.
func fieldAddrName(v ssa.Value) (string, bool) {
	fa, ok := v.(*ssa.FieldAddr)
	if !ok {
		return "", false
	}
	pt := fa.X.Type().Underlying().(*types.Pointer).Elem()
	tn := "?"
	if n, ok := pt.(*types.Named); ok {
		tn = n.Obj().Name()
	}
	return tn + "." + fieldName(fa), true
}

// callOf: v is the result (or one extracted result) of a call.
func callOf(v ssa.Value) (*ssa.Call, int) {
	v = strip(v)
	switch x := v.(type) {
	case *ssa.Call:
		return x, -1
	case *ssa.Extract:
		if c, ok := x.Tuple.(*ssa.Call); ok {
			return c, x.Index
		}
	}
	return nil, -1
}

// resultOf: v is result #idx (or the only result when idx<0 accepted) of a call to calleeID id.
func resultOf(v ssa.Value, id string) (*ssa.Call, int, bool) {
	c, i := callOf(v)
	if c == nil || calleeID(&c.Call) != id {
		return nil, 0, false
	}
	return c, i, true
}

// extracts returns the value of result #idx of a tuple-returning call (nil if unused).
func extractOf(call *ssa.Call, idx int) ssa.Value {
	if call.Referrers() == nil {
		return nil
	}
	for _, r := range *call.Referrers() {
		if e, ok := r.(*ssa.Extract); ok && e.Index == idx {
			return e
		}
	}
	return nil
}

// ---- barrier reachability ----

// reachAvoid searches forward from just after `from` for an instruction satisfying
// target, along paths on which no instruction satisfies barrier. It returns the
// target found (nil if none) and the block path.
func reachAvoid(from ssa.Instruction, target, barrier func(ssa.Instruction) bool) (ssa.Instruction, []*ssa.BasicBlock) {
	b := from.Block()
	return reachFrom(b, instrIndex(from)+1, target, barrier)
}

func reachFrom(b *ssa.BasicBlock, startIdx int, target, barrier func(ssa.Instruction) bool) (ssa.Instruction, []*ssa.BasicBlock) {
	return reachFromE(b, startIdx, target, barrier, nil)
}

// reachFromE additionally refuses to follow CFG edges for which edgeBarrier(from,to) holds.
func reachFromE(b *ssa.BasicBlock, startIdx int, target, barrier func(ssa.Instruction) bool, edgeBarrier func(from, to *ssa.BasicBlock) bool) (ssa.Instruction, []*ssa.BasicBlock) {
	type item struct {
		b    *ssa.BasicBlock
		idx  int
		prev *item
	}
	visited := map[*ssa.BasicBlock]bool{}
	queue := []*item{{b, startIdx, nil}}
	for len(queue) > 0 {
		it := queue[0]
		queue = queue[1:]
		blocked := false
		for i := it.idx; i < len(it.b.Instrs); i++ {
			in := it.b.Instrs[i]
			if target(in) {
				var path []*ssa.BasicBlock
				for p := it; p != nil; p = p.prev {
					path = append([]*ssa.BasicBlock{p.b}, path...)
				}
				return in, path
			}
			if barrier != nil && barrier(in) {
				blocked = true
				break
			}
		}
		if blocked {
			continue
		}
		for _, s := range it.b.Succs {
			if edgeBarrier != nil && edgeBarrier(it.b, s) {
				continue
			}
			if !visited[s] {
				visited[s] = true
				queue = append(queue, &item{s, 0, it})
			}
		}
	}
	return nil, nil
}

func isReturn(in ssa.Instruction) bool { _, ok := in.(*ssa.Return); return ok }

// ---- misc ----

func (c *Ctx) ipos(in ssa.Instruction) string {
	if in == nil {
		return "-"
	}
	if p := in.Pos(); p.IsValid() {
		return c.pos(p)
	}
	// fall back to any positioned instruction in the block
	for _, x := range in.Block().Instrs {
		if x.Pos().IsValid() {
			return c.pos(x.Pos()) + "~"
		}
	}
	return c.pos(in.Parent().Pos()) + "~"
}

func (c *Ctx) pathStr(path []*ssa.BasicBlock) []string {
	var out []string
	for _, b := range path {
		s := "block " + b.String()
		for _, x := range b.Instrs {
			if x.Pos().IsValid() {
				s += " @ " + c.pos(x.Pos())
				break
			}
		}
		if b.Comment != "" {
			s += " (" + b.Comment + ")"
		}
		out = append(out, s)
	}
	return out
}

// referrersOf lists instructions using v.
func referrersOf(v ssa.Value) []ssa.Instruction {
	r := v.Referrers()
	if r == nil {
		return nil
	}
	if len(deadBlocks) == 0 {
		return *r
	}
	var out []ssa.Instruction
	for _, in := range *r {
		if !deadBlocks[in.Block()] { // uses in code that can never run do not count (see prune.go)
			out = append(out, in)
		}
	}
	return out
}

// retVal resolves result #i of a return, looking through the result spill that
// go/ssa introduces in functions with defer (store to a result alloc, rundefers, load, return).
func retVal(r *ssa.Return, i int) ssa.Value {
	if i >= len(r.Results) {
		return nil
	}
	v := r.Results[i]
	u, ok := v.(*ssa.UnOp)
	if !ok || u.Op != token.MUL {
		return v
	}
	al, ok := u.X.(*ssa.Alloc)
	if !ok {
		return v
	}
	instrs := r.Block().Instrs
	for j := instrIndex(u) - 1; j >= 0; j-- {
		if st, ok := instrs[j].(*ssa.Store); ok && st.Addr == ssa.Value(al) {
			return st.Val
		}
	}
	return v
}
