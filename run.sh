#!/bin/sh
# usage: ./run.sh <Cnn> quick|thorough   |   ./run.sh explain <violation.json>
cd "$(dirname "$0")" || exit 2
. ./verif-env.sh
if [ ! -x bin/trzszlint ] || [ -n "$(find checker -name '*.go' -newer bin/trzszlint 2>/dev/null | head -1)" ]; then
  ./setup.sh >/dev/null 2>&1 || { echo "UNDECIDED cannot build checker"; exit 2; }
fi
if [ "$1" = "explain" ]; then
  exec bin/trzszlint explain "$2"
fi
exec bin/trzszlint check "$1" --tier "${2:-quick}"
