#!/usr/bin/env python3
# dev helper: regenerate the per-change table of DESIGN.md §10 from seeded/*/meta.json (after devtools/run_seeds.py)
import json, os, re
seeded='/verif/seeded'
rows=[]
for sid in sorted(os.listdir(seeded)):
    mp=os.path.join(seeded,sid,'meta.json')
    if not os.path.exists(mp): continue
    m=json.load(open(mp)); own=sid.split('-')[0]
    det=m.get('detected_by',{})
    first=(det.get(own) or [''])[0]
    others=', '.join(sorted(k for k in det if k!=own)) or ('—' if first else '')
    summ=re.sub(r'\s+',' ',m.get('summary','')).replace('|','/')[:150]
    rows.append('| %s | %s | `%s` | %s |'%(sid,summ,first,others))
p='/verif/DESIGN.md'; s=open(p).read()
head='| seed | change (from the sub-agent\'s summary) | first reporting obligation of the own-property check | other checks that report it |\n|---|---|---|---|\n'
i=s.index(head)+len(head)
j=i
lines=s[i:].split('\n')
k=0
while k<len(lines) and lines[k].startswith('| C'): k+=1
rest='\n'.join(lines[k:])
open(p,'w').write(s[:i]+'\n'.join(rows)+'\n'+rest)
print(len(rows),'rows')
