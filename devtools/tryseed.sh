#!/bin/sh
# dev helper: tryseed.sh <seed-id> <prop> [tier] — apply a seeded change to a scratch copy and run one check ($BIN, default bin/trzszlint)
S=$1; P=$2; T=${3:-quick}
D=/tmp/tryseed/$S
rm -rf $D; mkdir -p $D; cp -r /repo $D/r
git -C $D/r apply /verif/seeded/$S/patch.diff || exit 3
VERIF_DIR=${VERIF_DIR:-/tmp/wipv} VERIF_REPO=$D/r ${BIN:-/verif/bin/trzszlint} check $P $T | grep -v "^  rule:" | tail -${N:-12}
rm -rf $D
