module equivmut

go 1.23
