// equivmut (dev helper): applies a behaviour-preserving rewrite to EVERY eligible site of the non-test sources of
// package trzsz in a scratch copy, to test that no rule depends on how a condition is spelled.
//   mode "ifswap":  if c { A } else { B }   ->  if !(c) { B } else { A }        (else must be a plain block)
//   mode "opswap":  a OP b  ->  b OP' a  for comparisons whose operands contain no calls (other than len/cap) and no receives
package main

import (
	"fmt"
	"go/ast"
	"go/parser"
	"go/token"
	"os"
	"path/filepath"
	"sort"
	"strings"
)

type edit struct {
	s, e int
	repl string
}

func pure(e ast.Expr) bool {
	ok := true
	ast.Inspect(e, func(n ast.Node) bool {
		switch x := n.(type) {
		case *ast.CallExpr:
			if id, isID := x.Fun.(*ast.Ident); !isID || (id.Name != "len" && id.Name != "cap" && id.Name != "int64" && id.Name != "int" && id.Name != "byte") {
				ok = false
			}
		case *ast.UnaryExpr:
			if x.Op == token.ARROW {
				ok = false
			}
		case *ast.FuncLit:
			ok = false
		}
		return ok
	})
	return ok
}

func main() {
	dir, mode := os.Args[1], os.Args[2]
	files, _ := filepath.Glob(filepath.Join(dir, "trzsz", "*.go"))
	total := 0
	for _, fn := range files {
		if strings.HasSuffix(fn, "_test.go") {
			continue
		}
		src, _ := os.ReadFile(fn)
		fset := token.NewFileSet()
		f, err := parser.ParseFile(fset, fn, src, 0)
		if err != nil {
			continue
		}
		off := func(p token.Pos) int { return fset.Position(p).Offset }
		var edits []edit
		if mode == "guardinv" {
			// if c { A; return|continue|break } ; rest...   ->   if !(c) { rest... } else { A; return|... }
			// (first eligible statement of each block only: the moved text is not re-edited in the same pass)
			ast.Inspect(f, func(n ast.Node) bool {
				blk, ok := n.(*ast.BlockStmt)
				if !ok {
					return true
				}
				for i, st := range blk.List {
					is, ok := st.(*ast.IfStmt)
					if !ok || is.Else != nil || is.Init != nil || len(is.Body.List) == 0 || i == len(blk.List)-1 {
						continue
					}
					switch is.Body.List[len(is.Body.List)-1].(type) {
					case *ast.ReturnStmt, *ast.BranchStmt:
					default:
						continue
					}
					// the rest must not declare labels or contain a fallthrough-relevant construct; keep it simple
					restStart, restEnd := off(blk.List[i+1].Pos()), off(blk.List[len(blk.List)-1].End())
					hasDecl := false
					for _, r := range blk.List[i+1:] {
						if _, isL := r.(*ast.LabeledStmt); isL {
							hasDecl = true
						}
					}
					if hasDecl {
						break
					}
					cond := string(src[off(is.Cond.Pos()):off(is.Cond.End())])
					body := string(src[off(is.Body.Pos()):off(is.Body.End())])
					rest := string(src[restStart:restEnd])
					edits = append(edits, edit{off(is.Pos()), restEnd, "if !(" + cond + ") {\n" + rest + "\n} else " + body})
					return false
				}
				return true
			})
		}
		ast.Inspect(f, func(n ast.Node) bool {
			switch x := n.(type) {
			case *ast.IfStmt:
				if mode != "ifswap" {
					return true
				}
				eb, ok := x.Else.(*ast.BlockStmt)
				if !ok {
					return true
				}
				cond := string(src[off(x.Cond.Pos()):off(x.Cond.End())])
				body := string(src[off(x.Body.Pos()):off(x.Body.End())])
				els := string(src[off(eb.Pos()):off(eb.End())])
				edits = append(edits, edit{off(x.Cond.Pos()), off(eb.End()), "!(" + cond + ") " + els + " else " + body})
				return false // do not rewrite nested ifs inside (their text was moved verbatim)
			case *ast.BinaryExpr:
				if mode != "opswap" {
					return true
				}
				sw := map[token.Token]string{token.EQL: "==", token.NEQ: "!=", token.LSS: ">", token.GTR: "<", token.LEQ: ">=", token.GEQ: "<="}
				r, ok := sw[x.Op]
				if !ok || !pure(x.X) || !pure(x.Y) {
					return true
				}
				a := string(src[off(x.X.Pos()):off(x.X.End())])
				b := string(src[off(x.Y.Pos()):off(x.Y.End())])
				edits = append(edits, edit{off(x.Pos()), off(x.End()), "(" + b + ") " + r + " (" + a + ")"})
				return false
			}
			return true
		})
		sort.Slice(edits, func(i, j int) bool { return edits[i].s > edits[j].s })
		for _, e := range edits {
			src = append(src[:e.s], append([]byte(e.repl), src[e.e:]...)...)
		}
		total += len(edits)
		os.WriteFile(fn, src, 0o644)
	}
	fmt.Println(total, "sites rewritten")
}
