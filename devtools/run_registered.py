#!/usr/bin/env python3
# dev helper: run every quick and thorough command registered in MANIFEST.json against /repo; report anything not clean
import json,subprocess,sys
m=json.load(open('/verif/MANIFEST.json'))
bad=0
for p in m['checks']:
    for tier in ('quick','thorough'):
        cmd=p.get(tier) or p.get(tier+'_cmd') or p['commands'][tier]
        r=subprocess.run(cmd,shell=True,capture_output=True,text=True,cwd='/verif')
        if r.returncode!=0 or 'VIOLATION' in r.stdout:
            bad+=1; print(p.get('property') or p.get('id'),tier,r.returncode,r.stdout[-800:])
print('bad',bad)
sys.exit(1 if bad else 0)
