#!/bin/sh
# dev helper: verify every delivered seed; log to /tmp/wt/verify.log
O=${OUTDIR:-/tmp/wt2/out}
for id in ${IDS:-C01 C02 C03 C04 C05 C06 C07 C08 C09 C10 C11 C12 C13 C14 C15 C16 C17 C18 C19 C20}; do
  for v in a b c; do
    [ -f $O/$id/$v.diff ] || continue
    /verif/devtools/verify_seed.sh $id $v > $O/$id/verify_$v.log 2>&1
    tail -1 $O/$id/verify_$v.log
  done
done
