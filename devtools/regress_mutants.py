#!/usr/bin/env python3
# dev helper: re-run every mutant that passes the test suite (from a finished campaign's result file) against the current
# checker and compare with the recorded status: prints regressions (was flagged, now passes) and the new totals.
# usage: MUTS=/tmp/mutants.jsonl devtools/regress_mutants.py /tmp/mutres.jsonl
import json, os, subprocess, sys, tempfile, shutil, concurrent.futures, threading, collections
env=dict(os.environ, GOFLAGS='-mod=mod', GOPROXY='off', GOSUMDB='off', GOTOOLCHAIN='local', GOWORK='off')
muts={}
for l in open(os.environ.get('MUTS','/tmp/mutants.jsonl')):
    m=json.loads(l); muts[m['id']]=m
res=[json.loads(l) for l in open(sys.argv[1])]
res=[r for r in res if r['id'] in muts and r['status'] in ('survived','violation','undecided')]
local=threading.local()
def wd():
    if not hasattr(local,'S'):
        local.S=tempfile.mkdtemp(prefix='mutw.'); local.V=tempfile.mkdtemp(prefix='mutv.')
        subprocess.run(['rsync','-a','--exclude','.git','/repo/',local.S+'/'],check=True)
        shutil.copy('/verif/known_findings.txt',local.V); shutil.copy('/verif/properties.jsonl',local.V)
        shutil.copytree('/verif/baseline',os.path.join(local.V,'baseline'))
    return local.S,local.V
def run(r):
    S,V=wd(); m=muts[r['id']]
    path=os.path.join(S,'trzsz',m['file']); orig=open(os.path.join('/repo/trzsz',m['file']),'rb').read()
    try:
        open(path,'wb').write(orig[:m['start']]+m['repl'].encode()+orig[m['end']:])
        c=subprocess.run(['/verif/bin/trzszlint','checkall'],env=dict(env,VERIF_REPO=S,VERIF_DIR=V),capture_output=True,text=True,errors='replace')
        viol=[l for l in c.stdout.splitlines() if 'status=VIOLATION' in l]
        und=[l for l in c.stdout.splitlines() if 'status=UNDECIDED' in l]
        now='violation' if viol else ('undecided' if und else 'survived')
        return r, now
    finally:
        open(path,'wb').write(orig)
cnt=collections.Counter(); reg=[]
with concurrent.futures.ThreadPoolExecutor(max_workers=int(os.environ.get('W','14'))) as ex:
    for r,now in ex.map(run,res):
        cnt[now]+=1
        if r['status'] in ('violation','undecided') and now=='survived':
            reg.append(r)
        print(json.dumps(dict(id=r['id'],file=r['file'],line=r['line'],func=r['func'],kind=r['kind'],text=r['text'],was=r['status'],now=now)),file=sys.stderr)
print('totals now:',dict(cnt))
print('regressions:',len(reg))
for r in reg: print('  REGRESSION',r['id'],r['file'],r['line'],r['func'],r['kind'],'|',r['text'][:70])
