#!/usr/bin/env python3
# dev helper: copy confirmed seeds from /tmp/wt/out into /verif/seeded/<id>-<v>/
import json, os, shutil, sys, subprocess
out=os.environ.get('OUTDIR','/tmp/wt2/out'); dst='/verif/seeded'; rnd=os.environ.get('ROUND','2')
os.makedirs(dst, exist_ok=True)
for pid in sorted(os.listdir(out)):
    d=os.path.join(out,pid)
    if not os.path.isdir(d): continue
    try: meta=json.load(open(os.path.join(d,'meta.json')))
    except Exception as e: meta={}
    for v in ('a','b','c'):
        log=os.path.join(d,'verify_%s.log'%v)
        if not os.path.exists(log): continue
        txt=open(log).read()
        if 'CONFIRMED %s-%s'%(pid,v) not in txt or 'NOT CONFIRMED' in txt: 
            print('skip',pid,v); continue
        sid='%s-%s'%(pid,v) if rnd=='1' else '%s-%s%s'%(pid,rnd,v)
        sd=os.path.join(dst,sid); os.makedirs(sd,exist_ok=True)
        shutil.copy(os.path.join(d,v+'.diff'), os.path.join(sd,'patch.diff'))
        shutil.copy(os.path.join(d,'zz_demo_%s_test.go'%v), os.path.join(sd,'zz_demo_%s_test.go'%v))
        m=meta.get(v,{}) if isinstance(meta.get(v),dict) else {}
        mj={"id":sid,"property":pid,"origin":"independent sub-agent given only the property text and a scratch worktree",
            "summary":m.get('summary',''),"needs_to_manifest":m.get('needs_to_manifest',m.get('needs','')),
            "files_touched":m.get('files_touched',[]),
            "confirmed_by":"devtools/verify_seed.sh %s %s: scratch copy of /repo; demo passes without the change; with the change `go build ./...` ok, existing suite passes, demo fails"%(pid,v),
            "how_to_run":"copy zz_demo_%s_test.go into trzsz/ and run: cd trzsz && go test -vet=off -count=1 -run TestDemo%s ."%(v,v.upper()),
            "verify_log_tail":txt.strip().splitlines()[-8:]}
        old=os.path.join(sd,'meta.json')
        if os.path.exists(old):
            o=json.load(open(old))
            for k in ('detected_by','detection_notes'): 
                if k in o: mj[k]=o[k]
        json.dump(mj,open(old,'w'),indent=1)
        print('kept',pid,v)
