// mutgen (dev helper): lists simple AST mutants of /repo/trzsz non-test sources as JSON lines.
// kinds: negate-if (cond -> !(cond)), drop-stmt (delete an expression/defer/go/inc-dec/assign statement),
// drop-else-return (replace `return`/`continue`/`break` by nothing is NOT done: too many equivalent mutants).
package main

import (
	"encoding/json"
	"fmt"
	"go/ast"
	"go/parser"
	"go/token"
	"os"
	"path/filepath"
	"strconv"
	"strings"
)

type mutant struct {
	ID    string `json:"id"`
	File  string `json:"file"`
	Line  int    `json:"line"`
	Func  string `json:"func"`
	Kind  string `json:"kind"`
	Start int    `json:"start"`
	End   int    `json:"end"`
	Repl  string `json:"repl"`
	Text  string `json:"text"`
}

func main() {
	dir := "/repo/trzsz"
	set := os.Getenv("MUTSET") // "" = set 1 (negate-if, drop-stmt); "2" = rel-boundary, and-or, bool-flip, cond-false, swap-break-continue
	if len(os.Args) > 1 {
		dir = os.Args[1]
	}
	files, _ := filepath.Glob(filepath.Join(dir, "*.go"))
	enc := json.NewEncoder(os.Stdout)
	n := 0
	// set 5: siblings — fields of one struct with the same type, methods of one receiver with the same signature
	fieldSib := map[string][]string{}  // field name -> other fields of the same struct and type
	methodSib := map[string][]string{} // method name -> other methods of the same receiver and signature
	if set == "5" {
		fieldCount := map[string]int{}
		type fgroup struct{ names []string }
		var groups [][]string
		sigGroups := map[string][]string{}
		methCount := map[string]int{}
		for _, fn := range files {
			if strings.HasSuffix(fn, "_test.go") {
				continue
			}
			src, _ := os.ReadFile(fn)
			fset := token.NewFileSet()
			f, err := parser.ParseFile(fset, fn, src, 0)
			if err != nil {
				continue
			}
			text := func(a, b token.Pos) string { return string(src[fset.Position(a).Offset:fset.Position(b).Offset]) }
			ast.Inspect(f, func(nd ast.Node) bool {
				st, ok := nd.(*ast.StructType)
				if !ok || st.Fields == nil {
					return true
				}
				byType := map[string][]string{}
				for _, fl := range st.Fields.List {
					ty := text(fl.Type.Pos(), fl.Type.End())
					for _, nm := range fl.Names {
						byType[ty] = append(byType[ty], nm.Name)
						fieldCount[nm.Name]++
					}
				}
				for _, g := range byType {
					if len(g) >= 2 {
						groups = append(groups, g)
					}
				}
				return true
			})
			for _, d := range f.Decls {
				fd, ok := d.(*ast.FuncDecl)
				if !ok || fd.Recv == nil || len(fd.Recv.List) == 0 {
					continue
				}
				sig := text(fd.Recv.List[0].Type.Pos(), fd.Recv.List[0].Type.End()) + "|" + text(fd.Type.Params.Pos(), fd.Type.End())
				// parameter names do not matter: keep the types only (crudely: drop identifiers before a space)
				sigGroups[sig] = append(sigGroups[sig], fd.Name.Name)
				methCount[fd.Name.Name]++
			}
		}
		for _, g := range groups {
			for i, a := range g {
				if fieldCount[a] != 1 {
					continue
				}
				b := g[(i+1)%len(g)]
				if fieldCount[b] == 1 {
					fieldSib[a] = append(fieldSib[a], b)
				}
			}
		}
		for _, g := range sigGroups {
			if len(g) < 2 {
				continue
			}
			for i, a := range g {
				b := g[(i+1)%len(g)]
				if methCount[a] == 1 && methCount[b] == 1 {
					methodSib[a] = append(methodSib[a], b)
				}
			}
		}
	}
	for _, fn := range files {
		base := filepath.Base(fn)
		if strings.HasSuffix(base, "_test.go") || strings.HasPrefix(base, "pty_") || strings.HasPrefix(base, "utils_") || base == "version.go" || base == "drag.go" {
			continue
		}
		src, _ := os.ReadFile(fn)
		fset := token.NewFileSet()
		f, err := parser.ParseFile(fset, fn, src, 0)
		if err != nil {
			fmt.Fprintln(os.Stderr, err)
			continue
		}
		for _, d := range f.Decls {
			fd, ok := d.(*ast.FuncDecl)
			if !ok || fd.Body == nil {
				continue
			}
			fname := fd.Name.Name
			ast.Inspect(fd.Body, func(nd ast.Node) bool {
				emit := func(kind string, start, end token.Pos, repl string) {
					s, e := fset.Position(start).Offset, fset.Position(end).Offset
					n++
					txt := string(src[s:e])
					if len(txt) > 80 {
						txt = txt[:80]
					}
					pfx := "m"
					if set == "2" {
						pfx = "n"
					}
					if set == "3" {
						pfx = "k"
					}
					if set == "4" {
						pfx = "q"
					}
					if set == "5" {
						pfx = "w"
					}
					enc.Encode(mutant{ID: fmt.Sprintf("%s%04d", pfx, n), File: base, Line: fset.Position(start).Line, Func: fname, Kind: kind, Start: s, End: e, Repl: repl, Text: strings.ReplaceAll(txt, "\n", " ")})
				}
				if set == "5" {
					if sel, ok := nd.(*ast.SelectorExpr); ok {
						for _, sib := range fieldSib[sel.Sel.Name] {
							emit("field-swap", sel.Sel.Pos(), sel.Sel.End(), sib)
						}
						for _, sib := range methodSib[sel.Sel.Name] {
							emit("method-swap", sel.Sel.Pos(), sel.Sel.End(), sib)
						}
					}
					return true
				}
				if set == "4" {
					text := func(a, b token.Pos) string {
						return string(src[fset.Position(a).Offset:fset.Position(b).Offset])
					}
					switch x := nd.(type) {
					case *ast.ReturnStmt:
						for _, r := range x.Results {
							if id, ok := r.(*ast.Ident); ok && (strings.Contains(strings.ToLower(id.Name), "err") || id.Name == "e") {
								emit("ret-nil", r.Pos(), r.End(), "nil")
							}
						}
					case *ast.DeferStmt:
						emit("defer-to-call", x.Pos(), x.Call.Pos(), "")
					case *ast.GoStmt:
						emit("go-to-call", x.Pos(), x.Call.Pos(), "")
					case *ast.IfStmt:
						if x.Else != nil {
							emit("drop-else", x.Body.End(), x.Else.End(), "")
						}
					case *ast.BinaryExpr:
						if x.Op == token.ADD {
							if _, isStr := x.X.(*ast.BasicLit); !isStr {
								if _, isStr2 := x.Y.(*ast.BasicLit); !isStr2 || x.Y.(*ast.BasicLit).Kind != token.STRING {
									emit("add-sub", x.OpPos, x.OpPos+1, "-")
								}
							}
						}
						if x.Op == token.SUB {
							emit("add-sub", x.OpPos, x.OpPos+1, "+")
						}
					case *ast.AssignStmt:
						if x.Tok == token.ADD_ASSIGN {
							emit("add-sub", x.TokPos, x.TokPos+2, "-=")
						}
						if x.Tok == token.SUB_ASSIGN {
							emit("add-sub", x.TokPos, x.TokPos+2, "+=")
						}
					case *ast.BlockStmt:
						simple := func(st ast.Stmt) bool {
							switch y := st.(type) {
							case *ast.ExprStmt:
								_, ok := y.X.(*ast.CallExpr)
								return ok
							case *ast.AssignStmt:
								return y.Tok == token.ASSIGN || y.Tok == token.ADD_ASSIGN || y.Tok == token.SUB_ASSIGN
							case *ast.IncDecStmt, *ast.DeferStmt:
								return true
							}
							return false
						}
						for i := 0; i+1 < len(x.List); i++ {
							a, b := x.List[i], x.List[i+1]
							if simple(a) && simple(b) {
								ta, tb := text(a.Pos(), a.End()), text(b.Pos(), b.End())
								if ta != tb {
									emit("swap-stmts", a.Pos(), b.End(), tb+"\n"+ta)
								}
							}
						}
					}
					return true
				}
				if set == "3" {
					switch x := nd.(type) {
					case *ast.BasicLit:
						switch x.Kind {
						case token.INT:
							if v, err := strconv.ParseInt(x.Value, 0, 64); err == nil {
								emit("int-lit+1", x.Pos(), x.End(), strconv.FormatInt(v+1, 10))
								if v > 1 {
									emit("int-lit-1", x.Pos(), x.End(), strconv.FormatInt(v-1, 10))
								}
							}
						case token.STRING:
							if u, err := strconv.Unquote(x.Value); err == nil && len(u) >= 1 && len(u) <= 16 && !strings.Contains(u, "%") {
								emit("str-lit", x.Pos(), x.End(), strconv.Quote(u+"_"))
								if len(u) >= 2 {
									emit("str-lit-short", x.Pos(), x.End(), strconv.Quote(u[:len(u)-1]))
								}
							}
						case token.CHAR:
							if u, _, _, err := strconv.UnquoteChar(x.Value[1:len(x.Value)-1], '\''); err == nil && u < 0x7e && u > 0x20 {
								emit("char-lit", x.Pos(), x.End(), strconv.QuoteRune(u+1))
							}
						}
					case *ast.CallExpr:
						for i := 0; i+1 < len(x.Args); i++ {
							if x.Ellipsis.IsValid() && i+1 == len(x.Args)-1 {
								continue
							}
							a := string(src[fset.Position(x.Args[i].Pos()).Offset:fset.Position(x.Args[i].End()).Offset])
							b := string(src[fset.Position(x.Args[i+1].Pos()).Offset:fset.Position(x.Args[i+1].End()).Offset])
							if a != b {
								emit("arg-swap", x.Args[i].Pos(), x.Args[i+1].End(), b+", "+a)
							}
						}
					}
					return true
				}
				if set == "2" {
					switch x := nd.(type) {
					case *ast.BinaryExpr:
						swap := map[token.Token]string{token.LSS: "<=", token.LEQ: "<", token.GTR: ">=", token.GEQ: ">"}
						if r, ok := swap[x.Op]; ok {
							emit("rel-boundary", x.OpPos, x.OpPos+token.Pos(len(x.Op.String())), r)
						}
						if x.Op == token.LAND {
							emit("and-or", x.OpPos, x.OpPos+2, "||")
						}
						if x.Op == token.LOR {
							emit("and-or", x.OpPos, x.OpPos+2, "&&")
						}
					case *ast.Ident:
						if x.Name == "true" {
							emit("bool-flip", x.Pos(), x.End(), "false")
						}
						if x.Name == "false" {
							emit("bool-flip", x.Pos(), x.End(), "true")
						}
					case *ast.IfStmt:
						if x.Else == nil && len(x.Body.List) > 0 {
							switch l := x.Body.List[len(x.Body.List)-1].(type) {
							case *ast.ReturnStmt:
								emit("cond-false", x.Cond.Pos(), x.Cond.End(), "false")
							case *ast.BranchStmt:
								_ = l
								emit("cond-false", x.Cond.Pos(), x.Cond.End(), "false")
							}
						}
					case *ast.BranchStmt:
						if x.Label == nil && x.Tok == token.BREAK {
							emit("swap-break-continue", x.Pos(), x.End(), "continue")
						}
						if x.Label == nil && x.Tok == token.CONTINUE {
							emit("swap-break-continue", x.Pos(), x.End(), "break")
						}
					}
					return true
				}
				switch x := nd.(type) {
				case *ast.IfStmt:
					s, e := fset.Position(x.Cond.Pos()).Offset, fset.Position(x.Cond.End()).Offset
					emit("negate-if", x.Cond.Pos(), x.Cond.End(), "!("+string(src[s:e])+")")
				case *ast.ExprStmt:
					if _, ok := x.X.(*ast.CallExpr); ok {
						emit("drop-stmt", x.Pos(), x.End(), "")
					}
				case *ast.DeferStmt:
					emit("drop-stmt", x.Pos(), x.End(), "")
				case *ast.IncDecStmt:
					emit("drop-stmt", x.Pos(), x.End(), "")
				case *ast.AssignStmt:
					if x.Tok == token.ASSIGN || x.Tok == token.ADD_ASSIGN || x.Tok == token.SUB_ASSIGN {
						emit("drop-stmt", x.Pos(), x.End(), "")
					}
				case *ast.ForStmt:
					if x.Cond != nil {
						// loop condition weakened is rarely meaningful; skip
					}
				}
				return true
			})
		}
	}
	fmt.Fprintln(os.Stderr, n, "mutants")
}
