#!/usr/bin/env python3
# dev helper: run every check against every kept behaviour-preserving tree (equivalents/*/X.diff); print runs with VIOLATION / UNDECIDED.
import glob, json, os, shutil, subprocess, sys, tempfile, concurrent.futures
props=[json.loads(l)['id'] for l in open('/verif/properties.jsonl')]
env=dict(os.environ, GOFLAGS='-mod=mod', GOPROXY='off', GOSUMDB='off', GOTOOLCHAIN='local', GOWORK='off')
def run(diff):
    S=tempfile.mkdtemp(prefix='eqrun.'); V=tempfile.mkdtemp(prefix='eqver.')
    try:
        subprocess.run(['rsync','-a','--exclude','.git','/repo/',S+'/'],check=True)
        shutil.copy('/verif/known_findings.txt',V); shutil.copy('/verif/properties.jsonl',V)
        shutil.copytree('/verif/baseline',os.path.join(V,'baseline'))
        p=subprocess.run(['patch','-p1','-s','-i',diff],cwd=S,capture_output=True,text=True)
        if p.returncode!=0: return diff,{'error':'patch failed '+p.stdout[-300:]}
        if subprocess.run(['go','build','./...'],cwd=S,env=env,capture_output=True).returncode!=0: return diff,{'error':'build failed'}
        res={}
        for pid in props:
            r=subprocess.run(['/verif/bin/trzszlint','check',pid,'--tier','quick'],env=dict(env,VERIF_REPO=S,VERIF_DIR=V),capture_output=True,text=True)
            if r.returncode==1: res[pid]=['V']+[l.split('key:')[1].strip() for l in r.stdout.splitlines() if l.strip().startswith('key:')]
            elif r.returncode==2: res[pid]=['U']
        return diff,res
    finally:
        shutil.rmtree(S,ignore_errors=True); shutil.rmtree(V,ignore_errors=True)
diffs=sorted(glob.glob(os.environ.get('EQGLOB','/verif/equivalents/*/*.diff')))
nv=nu=0
with concurrent.futures.ThreadPoolExecutor(max_workers=11) as ex:
    for d,res in ex.map(run,diffs):
        name='/'.join(d.split('/')[-2:])
        if 'error' in res: print(name,'ERROR',res['error']); continue
        v={k:x[1:] for k,x in res.items() if x[0]=='V'}; u=[k for k,x in res.items() if x[0]=='U']
        nv+=len(v); nu+=len(u)
        print(name,'VIOLATION' if v else 'quiet',json.dumps(v) if v else '','undecided:'+','.join(u) if u else '',flush=True)
print('runs with VIOLATION',nv,'runs UNDECIDED',nu)
