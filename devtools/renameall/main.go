// renameall (dev helper): appends "_r" to every parameter, named result and local variable of the functions of
// package trzsz in the tree given as argument (a scratch copy!). Used to test that no rule depends on variable names.
package main

import (
	"fmt"
	"go/ast"
	"go/types"
	"os"
	"sort"

	"golang.org/x/tools/go/packages"
)

func main() {
	dir := os.Args[1]
	cfg := &packages.Config{Mode: packages.NeedName | packages.NeedFiles | packages.NeedCompiledGoFiles | packages.NeedSyntax | packages.NeedTypes | packages.NeedTypesInfo | packages.NeedImports | packages.NeedDeps,
		Dir: dir, Env: append(os.Environ(), "GOFLAGS=-mod=mod", "GOPROXY=off", "GOSUMDB=off", "GOWORK=off")}
	pkgs, err := packages.Load(cfg, "./trzsz")
	if err != nil || len(pkgs) != 1 {
		fmt.Fprintln(os.Stderr, "load:", err)
		os.Exit(1)
	}
	p := pkgs[0]
	type edit struct {
		off int
		n   int
	}
	edits := map[string][]edit{}
	want := map[types.Object]bool{}
	for id, obj := range p.TypesInfo.Defs {
		v, ok := obj.(*types.Var)
		if !ok || v.IsField() || id.Name == "_" || v.Parent() == nil || v.Parent() == p.Types.Scope() {
			continue
		}
		want[obj] = true
	}
	add := func(id *ast.Ident) {
		pos := p.Fset.Position(id.Pos())
		edits[pos.Filename] = append(edits[pos.Filename], edit{pos.Offset, len(id.Name)})
	}
	for id, obj := range p.TypesInfo.Defs {
		if want[obj] {
			add(id)
		}
	}
	for id, obj := range p.TypesInfo.Uses {
		if want[obj] {
			add(id)
		}
	}
	n := 0
	for fn, es := range edits {
		src, _ := os.ReadFile(fn)
		sort.Slice(es, func(i, j int) bool { return es[i].off > es[j].off })
		last := -1
		for _, e := range es {
			if e.off == last {
				continue
			}
			last = e.off
			src = append(src[:e.off+e.n], append([]byte("_r"), src[e.off+e.n:]...)...)
			n++
		}
		os.WriteFile(fn, src, 0o644)
	}
	fmt.Println(n, "identifiers renamed")
}
