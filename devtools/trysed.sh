#!/bin/sh
# dev helper: usage: devtools/trysed.sh <file-in-repo> <sed-expr> <Cnn>...
file="$1"; expr="$2"; shift; shift
S=$(mktemp -d /tmp/mutrepo.XXXXXX); V=$(mktemp -d /tmp/mutverif.XXXXXX)
rsync -a --exclude .git /repo/ "$S"/
cp /verif/known_findings.txt "$V"/ 2>/dev/null; cp /verif/properties.jsonl "$V"/
sed -i "$expr" "$S/$file"
if diff -q "$S/$file" "/repo/$file" >/dev/null; then echo "SED DID NOT CHANGE ANYTHING"; rm -rf "$S" "$V"; exit 3; fi
. /verif/verif-env.sh
(cd "$S" && go build ./... ) || { echo "DOES NOT BUILD"; rm -rf "$S" "$V"; exit 3; }
for p in "$@"; do
  VERIF_REPO="$S" VERIF_DIR="$V" ${BIN:-/verif/bin/trzszlint} check "$p" | grep -v '^   ' | head -${LINES_MAX:-8}
done
rm -rf "$S" "$V"
