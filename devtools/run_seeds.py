#!/usr/bin/env python3
# dev helper: run every check against every kept seed (scratch copy of /repo + patch), record which checks fire.
import json, os, subprocess, sys, tempfile, shutil, concurrent.futures
seeded='/verif/seeded'
props=[json.loads(l)['id'] for l in open('/verif/properties.jsonl')]
env=dict(os.environ, GOFLAGS='-mod=mod', GOPROXY='off', GOSUMDB='off', GOTOOLCHAIN='local', GOWORK='off')
def run_seed(sid):
    d=os.path.join(seeded,sid)
    S=tempfile.mkdtemp(prefix='seedrun.'); V=tempfile.mkdtemp(prefix='seedver.')
    try:
        subprocess.run(['rsync','-a','--exclude','.git','/repo/',S+'/'],check=True)
        shutil.copy('/verif/known_findings.txt',V); shutil.copy('/verif/properties.jsonl',V)
        shutil.copytree(os.environ.get('BASE','/verif/baseline'),os.path.join(V,'baseline'))
        p=subprocess.run(['patch','-p1','-s','-i',os.path.join(d,'patch.diff')],cwd=S,capture_output=True,text=True)
        if p.returncode!=0: return sid,{'error':'patch failed: '+p.stdout[-200:]}
        b=subprocess.run(['go','build','./...'],cwd=S,env=env,capture_output=True,text=True)
        if b.returncode!=0: return sid,{'error':'build failed'}
        res={}
        for pid in props:
            e=dict(env,VERIF_REPO=S,VERIF_DIR=V)
            r=subprocess.run([os.environ.get('BIN','/verif/bin/trzszlint'),'check',pid,'--tier','quick'],env=e,capture_output=True,text=True)
            keys=[l.split('key:')[1].strip() for l in r.stdout.splitlines() if l.strip().startswith('key:')]
            und=[l for l in r.stdout.splitlines() if l.startswith('UNDECIDED')]
            if r.returncode==1: res[pid]={'violations':sorted(set(keys))}
            elif r.returncode==2: res[pid]={'undecided':und[:3]}
        return sid,res
    finally:
        shutil.rmtree(S,ignore_errors=True); shutil.rmtree(V,ignore_errors=True)
sids=sorted(x for x in os.listdir(seeded) if os.path.isdir(os.path.join(seeded,x)))
if len(sys.argv)>1: sids=[s for s in sids if s in sys.argv[1:]]
out={}
with concurrent.futures.ThreadPoolExecutor(max_workers=12) as ex:
    for sid,res in ex.map(run_seed,sids):
        out[sid]=res
        own=sid.split('-')[0]
        status='ERROR' if 'error' in res else ('own' if own in res and 'violations' in res[own] else ('other:'+','.join(k for k in res if 'violations' in res[k]) if any('violations' in v for v in res.values()) else 'MISSED'))
        print(sid,status,flush=True)
        if os.environ.get('NOMETA'): continue
        mp=os.path.join(seeded,sid,'meta.json'); m=json.load(open(mp))
        m['detected_by']={k:v['violations'] for k,v in res.items() if isinstance(v,dict) and 'violations' in v}
        m['undecided_in']={k:v['undecided'] for k,v in res.items() if isinstance(v,dict) and 'undecided' in v}
        m['detected_by_own_property_check']= own in m['detected_by']
        json.dump(m,open(mp,'w'),indent=1)
if os.environ.get('NOMETA'): sys.exit(0)
if len(sys.argv)>1:
    # partial run: merge into the recorded matrix
    try: full=json.load(open('/verif/seeded/results.json'))
    except Exception: full={}
    full.update(out); out=full
json.dump(out,open('/verif/seeded/results.json','w'),indent=1,sort_keys=True)
