#!/bin/sh
# dev helper: regenerate baseline/<id>.keys from the current (unchanged) tree
cd /verif && mkdir -p baseline && rm -f baseline/*.keys
for p in $(bin/trzszlint list); do
  bin/trzszlint check $p --tier quick >/dev/null
  python3 - "$p" <<'PY'
import json,sys
p=sys.argv[1]
e=json.load(open('/verif/evidence/%s.json'%p))
keys=sorted({o['key'] for o in e['coverage']['obligation_list'] if o['status'] in ('discharged','known-finding')})
open('/verif/baseline/%s.keys'%p,'w').write('\n'.join(keys)+'\n')
print(p,len(keys))
PY
done
bin/trzszlint vars > baseline/vars.json
bin/trzszlint funcs > baseline/funcs.json
