#!/usr/bin/env python3
# dev helper: apply each AST mutant (from devtools/mutgen) to a scratch copy, keep those that build and pass
# the existing tests, run all checks (single load) on them; write /tmp/mutres.jsonl
import json, os, subprocess, sys, tempfile, shutil, concurrent.futures, threading
env=dict(os.environ, GOFLAGS='-mod=mod', GOPROXY='off', GOSUMDB='off', GOTOOLCHAIN='local', GOWORK='off')
muts=[json.loads(l) for l in open(sys.argv[1] if len(sys.argv)>1 else '/tmp/mutants.jsonl')]
OUT=os.environ.get('OUT','/tmp/mutres.jsonl'); out=open(OUT,'a')
done=set()
try:
    for l in open(OUT): done.add(json.loads(l)['id'])
except Exception: pass
lock=threading.Lock()
local=threading.local()
def worker_dir():
    if not hasattr(local,'S'):
        local.S=tempfile.mkdtemp(prefix='mutw.'); local.V=tempfile.mkdtemp(prefix='mutv.')
        subprocess.run(['rsync','-a','--exclude','.git','/repo/',local.S+'/'],check=True)
        shutil.copy('/verif/known_findings.txt',local.V); shutil.copy('/verif/properties.jsonl',local.V)
        shutil.copytree('/verif/baseline',os.path.join(local.V,'baseline'))
    return local.S,local.V
def run(m):
    if m['id'] in done: return None
    S,V=worker_dir()
    path=os.path.join(S,'trzsz',m['file']); orig=open(os.path.join('/repo/trzsz',m['file']),'rb').read()
    try:
        open(path,'wb').write(orig[:m['start']]+m['repl'].encode()+orig[m['end']:])
        r={'id':m['id'],'file':m['file'],'line':m['line'],'func':m['func'],'kind':m['kind'],'text':m['text']}
        b=subprocess.run(['go','build','./trzsz'],cwd=S,env=env,capture_output=True,text=True,errors='replace')
        if b.returncode!=0: r['status']='nobuild'; return r
        t=subprocess.run(['go','test','-vet=off','-count=1','-timeout','120s','./trzsz'],cwd=S,env=env,capture_output=True,text=True,errors='replace')
        if t.returncode!=0: r['status']='killed-by-tests'; return r
        e=dict(env,VERIF_REPO=S,VERIF_DIR=V)
        c=subprocess.run(['/verif/bin/trzszlint','checkall'],env=e,capture_output=True,text=True,errors='replace')
        viol=[l for l in c.stdout.splitlines() if 'status=VIOLATION' in l]
        und=[l for l in c.stdout.splitlines() if 'status=UNDECIDED' in l]
        r['status']='violation' if viol else ('undecided' if und else 'survived')
        r['by']=[l.split()[0] for l in viol]; r['und']=[l.split()[0] for l in und]
        r['keys']=[l.split('keys=')[1][:160] for l in viol[:2]]
        return r
    finally:
        open(path,'wb').write(orig)
with concurrent.futures.ThreadPoolExecutor(max_workers=int(os.environ.get('W','12'))) as ex:
    for r in ex.map(run,muts):
        if r is None: continue
        with lock:
            out.write(json.dumps(r)+'\n'); out.flush()
