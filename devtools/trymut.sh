#!/bin/sh
# dev helper: run checks against a scratch copy of /repo with a patch applied.
# usage: devtools/trymut.sh <patch.diff> <Cnn> [<Cnn>...]   (patch '-' = none)
patch="$1"; shift
S=$(mktemp -d /tmp/mutrepo.XXXXXX); V=$(mktemp -d /tmp/mutverif.XXXXXX)
rsync -a --exclude .git /repo/ "$S"/
cp /verif/known_findings.txt "$V"/ 2>/dev/null; cp /verif/properties.jsonl "$V"/
if [ "$patch" != "-" ]; then (cd "$S" && patch -p1 -s < "$patch") || { echo "patch failed"; rm -rf "$S" "$V"; exit 3; }; fi
. /verif/verif-env.sh
(cd "$S" && go build ./... ) || { echo "DOES NOT BUILD"; rm -rf "$S" "$V"; exit 3; }
rc=0
for p in "$@"; do
  VERIF_REPO="$S" VERIF_DIR="$V" /verif/bin/trzszlint check "$p" --tier "${TIER:-quick}" | grep -v '^  ' | head -${LINES_MAX:-12}
done
rm -rf "$S" "$V"
