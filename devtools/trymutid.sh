#!/bin/sh
# dev helper: trymutid.sh <mutants.jsonl> <id> <prop>... — apply one recorded AST mutant to a scratch copy and run checks ($BIN)
M=$1; ID=$2; shift 2
D=/tmp/trymutid/$ID; rm -rf $D; mkdir -p $D; cp -r /repo $D/r
python3 - "$M" "$ID" "$D/r" <<'PY'
import json,sys
for l in open(sys.argv[1]):
    m=json.loads(l)
    if m['id']==sys.argv[2]:
        p=sys.argv[3]+'/trzsz/'+m['file']; b=open(p,'rb').read()
        open(p,'wb').write(b[:m['start']]+m['repl'].encode()+b[m['end']:]); print(m['file'],m['line'],m['kind'],m['text'][:80])
PY
for p in "$@"; do VERIF_DIR=${VERIF_DIR:-/tmp/wipv} VERIF_REPO=$D/r ${BIN:-/verif/bin/trzszlint} check $p quick | grep "key:\|^$p\|UNDEC" | head -${N:-6}; done
rm -rf $D
