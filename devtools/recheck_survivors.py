#!/usr/bin/env python3
# dev helper: re-run the mutants that survived (status 'survived' in /tmp/mutres.jsonl) against the current
# checker build; prints those still surviving and writes /tmp/recheck_out.jsonl with the new status.
import json, os, subprocess, sys, tempfile, shutil, concurrent.futures, threading
env=dict(os.environ, GOFLAGS='-mod=mod', GOPROXY='off', GOSUMDB='off', GOTOOLCHAIN='local', GOWORK='off')
muts={}
for l in open(os.environ.get('MUTS','/tmp/mutants.jsonl')):
    m=json.loads(l); muts[m['id']]=m
res=[json.loads(l) for l in open(sys.argv[1] if len(sys.argv)>1 else '/tmp/mutres.jsonl')]
surv=[r for r in res if r['status'] in ('survived','undecided') and (not os.environ.get('KIND') or r['kind']==os.environ['KIND'])]
local=threading.local()
def wd():
    if not hasattr(local,'S'):
        local.S=tempfile.mkdtemp(prefix='mutw.'); local.V=tempfile.mkdtemp(prefix='mutv.')
        subprocess.run(['rsync','-a','--exclude','.git','/repo/',local.S+'/'],check=True)
        shutil.copy('/verif/known_findings.txt',local.V); shutil.copy('/verif/properties.jsonl',local.V)
    return local.S,local.V
def run(r):
    S,V=wd(); m=muts[r['id']]
    path=os.path.join(S,'trzsz',m['file']); orig=open(os.path.join('/repo/trzsz',m['file']),'rb').read()
    try:
        open(path,'wb').write(orig[:m['start']]+m['repl'].encode()+orig[m['end']:])
        c=subprocess.run([os.environ.get('BIN','/verif/bin/trzszlint'),'checkall'],env=dict(env,VERIF_REPO=S,VERIF_DIR=V),capture_output=True,text=True,errors='replace')
        viol=[l for l in c.stdout.splitlines() if 'status=VIOLATION' in l]
        r=dict(r); r['status']='violation' if viol else 'survived'; r['by']=[l.split()[0] for l in viol]; r['keys']=[l.split('keys=')[1][:200] for l in viol[:2]]
        return r
    finally:
        open(path,'wb').write(orig)
out=open('/tmp/recheck_out.jsonl','w')
with concurrent.futures.ThreadPoolExecutor(max_workers=int(os.environ.get('W','8'))) as ex:
    for r in ex.map(run,surv):
        out.write(json.dumps(r)+'\n')
        tag='CAUGHT '+','.join(r['by']) if r['status']=='violation' else 'SURVIVED'
        print(r['file'],r['line'],r['func'],r['kind'],'|',r['text'][:70].replace('\n',' '),'=>',tag)
