#!/bin/sh
# dev helper: confirm a sub-agent's seeded change: builds, existing tests pass, demo fails with it and passes without.
# usage: devtools/verify_seed.sh <Cnn> <a|b> [base.diff]     (reads /tmp/wt/out/<Cnn>/<a|b>.diff, zz_demo_<a|b>_test.go)
id="$1"; v="$2"; base="$3"
out=${OUTDIR:-/tmp/wt2/out}/$id
S=$(mktemp -d /tmp/seedrepo.XXXXXX)
rsync -a --exclude .git /repo/ "$S"/
. /verif/verif-env.sh
cd "$S" || exit 3
if [ -n "$base" ]; then patch -p1 -s < "$base" || { echo "BASE PATCH FAILED"; rm -rf "$S"; exit 3; }; fi
cp "$out/zz_demo_${v}_test.go" trzsz/
upper=$(echo "$v" | tr a-z A-Z)
echo "--- demo on unmodified source (expect ok)"
(cd trzsz && go test -vet=off -count=1 -run "TestDemo${upper}\$" . 2>&1 | tail -3); r0=$?
(cd trzsz && go test -vet=off -count=1 -run "TestDemo${upper}\$" . >/dev/null 2>&1); r0=$?
patch -p1 -s < "$out/$v.diff" || { echo "PATCH FAILED"; rm -rf "$S"; exit 3; }
go build ./... || { echo "DOES NOT BUILD"; rm -rf "$S"; exit 3; }
rm trzsz/zz_demo_${v}_test.go
echo "--- existing suite with the change (expect ok)"
(cd trzsz && go test -vet=off -count=1 ./... 2>&1 | tail -2)
(cd trzsz && go test -vet=off -count=1 ./... >/dev/null 2>&1); r1=$?
cp "$out/zz_demo_${v}_test.go" trzsz/
echo "--- demo with the change (expect FAIL)"
(cd trzsz && go test -vet=off -count=1 -run "TestDemo${upper}\$" . 2>&1 | grep -v "^\s*$" | tail -6)
(cd trzsz && go test -vet=off -count=1 -run "TestDemo${upper}\$" . >/dev/null 2>&1); r2=$?
cd /; rm -rf "$S"
echo "RESULT $id-$v demo_without=$r0 suite_with=$r1 demo_with=$r2"
if [ $r0 -eq 0 ] && [ $r1 -eq 0 ] && [ $r2 -ne 0 ]; then echo "CONFIRMED $id-$v"; exit 0; fi
echo "NOT CONFIRMED $id-$v"; exit 1
